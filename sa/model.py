"""Builders of abstract model objects (AObj) whose methods are resolved from the analysed source."""
from __future__ import annotations

from typing import Any, Optional

from .absint import AObj, EnumVal, OrdInt
from .pm import ProgramModel


class ModelBuilder:
    """Builds abstract model objects by evaluating the analysed classes' own `__init__` (so that any
    field a constructor sets - caches included - exists), then pins the fields the checks rely on."""

    def __init__(self, pm: ProgramModel) -> None:
        from .absint import Interp
        self.pm = pm
        ft = pm.enum_members(pm.cls("FeatureType")) if pm.has_cls("FeatureType") else {}
        self.boolean = EnumVal("FeatureType", "BOOLEAN", ft.get("BOOLEAN", "Boolean"))
        self.ops = pm.enum_members(pm.cls("ASTOperation")) if pm.has_cls("ASTOperation") else {}
        self._it = Interp(pm)

    def _new(self, cls: str, args: list[Any], fields: dict[str, Any]) -> AObj:
        from .absint import AbsRaise
        from .core import AnalysisError
        obj: Optional[AObj] = None
        if self.pm.has_cls(cls):
            try:
                obj = self._it.eval_call_class(self.pm.cls(cls), args)
            except (AnalysisError, AbsRaise):
                obj = None
        if obj is None:
            obj = AObj(cls)
        for k, v in fields.items():
            obj._f[k] = v
        obj._f.pop("_complete", None)
        return obj

    def op(self, name: str) -> EnumVal:
        return EnumVal("ASTOperation", name, self.ops.get(name, name))

    def feature(self, name: str, parent: Optional[AObj] = None, is_abstract: bool = False,
                ftype: Optional[EnumVal] = None, card: tuple[int, int] = (1, 1)) -> AObj:
        cardo = self._new("Cardinality", [card[0], card[1]], {"min": card[0], "max": card[1]})
        return self._new("Feature", [name], {
            "name": name, "parent": parent, "relations": [], "is_abstract": is_abstract,
            "feature_type": ftype or self.boolean, "feature_cardinality": cardo, "attributes": []})

    def relation(self, parent: AObj, children: list[AObj], lo: int, hi: int,
                 attach: bool = True) -> AObj:
        r = self._new("Relation", [parent, list(children), lo, hi],
                      {"parent": parent, "children": list(children), "card_min": lo, "card_max": hi})
        if attach:
            parent._f["relations"].append(r)
            for c in children:
                c._f["parent"] = parent
        return r

    def node(self, data: Any, left: Optional[AObj] = None, right: Optional[AObj] = None) -> AObj:
        return self._new("Node", [data, left, right], {"data": data, "left": left, "right": right})

    def ast(self, root: AObj) -> AObj:
        return self._new("AST", [root], {"root": root})

    def constraint(self, name: str, root: AObj) -> AObj:
        a = self.ast(root)
        return self._new("Constraint", [name, a], {"name": name, "_ast": a})

    def model(self, root: AObj, ctcs: Optional[list[AObj]] = None) -> AObj:
        cs = list(ctcs or [])
        return self._new("FeatureModel", [root, cs], {"root": root, "ctcs": cs})

    def attribute(self, name: str, default: Any = None, parent: Optional[AObj] = None,
                  domain: Any = None, null: Any = None) -> AObj:
        return self._new("Attribute", [name, domain, default, null],
                         {"name": name, "parent": parent, "domain": domain, "default_value": default,
                          "null_value": null})


def frozen_list(items: list[Any]) -> Any:
    from .absint import TaggedList
    t = TaggedList(items)
    t._frozen = True
    return t


def freeze_model(fm: AObj) -> None:
    """Mark every object and container owned by the model as input-owned: a store into them
    during formula evaluation raises AbsMutation."""
    seen: set[int] = set()

    def fz(o: Any) -> Any:
        if isinstance(o, AObj):
            if id(o) in seen:
                return o
            seen.add(id(o))
            for k, v in list(o._f.items()):
                if isinstance(v, list):
                    o._f[k] = frozen_list([fz(x) for x in v])
                elif isinstance(v, AObj):
                    fz(v)
            o._f["_frozen"] = True
        return o
    fz(fm)


def snapshot(fm: AObj, skip: tuple[str, ...] = ()) -> Any:
    """Structural snapshot of a model (for 'unchanged' comparisons)."""
    seen: dict[int, int] = {}
    skipped = ("_frozen", "_complete") + tuple(skip)

    def sn(o: Any) -> Any:
        if isinstance(o, AObj):
            if id(o) in seen:
                return ("ref", seen[id(o)])
            seen[id(o)] = len(seen)
            return (o._cls, tuple((k, sn(v)) for k, v in sorted(o._f.items())
                                  if k not in skipped))
        if isinstance(o, (list, tuple)):
            return tuple(sn(x) for x in o)
        if isinstance(o, (set, frozenset)):
            return ("set", tuple(sorted(repr(sn(x)) for x in o)))
        if isinstance(o, OrdInt):
            return o.v
        if isinstance(o, EnumVal):
            return ("enum", o.cls, o.name)
        return o
    return sn(fm)


def rich_model(mb: "ModelBuilder", ctcs: bool = True) -> AObj:
    """A model realising every relation kind, several relations per parent, abstract features,
    attributes and every constraint class."""
    F = mb.feature
    root = F("Root", is_abstract=True)
    M, O = F("M", is_abstract=True), F("O")
    x, y, z = F("x"), F("y"), F("z")
    u, v = F("u"), F("v")
    p, q = F("p"), F("q")
    k1, k2, k3 = F("k1"), F("k2"), F("k3")
    deep, deeper = F("deep"), F("deeper")
    solo = F("solo")
    mb.relation(root, [M], 1, 1)
    mb.relation(root, [O], 0, 1)
    mb.relation(root, [p, q], 0, 1)            # mutex
    mb.relation(M, [x, y, z], 1, 3)            # or
    mb.relation(M, [solo], 1, 1)               # mandatory next to a group
    mb.relation(O, [u, v], 1, 1)               # alternative
    mb.relation(x, [k1, k2, k3], 2, 3)         # cardinality
    s1, s2, s3 = F("s1"), F("s2"), F("s3")
    mb.relation(y, [s1, s2, s3], 2, -1)        # [2..*]
    mb.relation(u, [deep], 0, 1)
    mb.relation(deep, [deeper], 1, 1)
    a = mb.attribute("cost", 3, x)
    x._f["attributes"].append(a)
    b = mb.attribute("label", "hi", deeper)
    deeper._f["attributes"].append(b)
    cs = []
    if ctcs:
        n, o_ = mb.node, mb.op
        cs = [
            mb.constraint("req", n(o_("REQUIRES"), n("x"), n("u"))),
            mb.constraint("exc", n(o_("EXCLUDES"), n("p"), n("v"))),
            mb.constraint("imp", n(o_("IMPLIES"), n("y"), n("solo"))),
            mb.constraint("or", n(o_("OR"), n(o_("NOT"), n("z")), n(o_("NOT"), n("q")))),
            mb.constraint("pseudo", n(o_("IMPLIES"), n("k1"), n(o_("AND"), n("k2"), n("O")))),
            mb.constraint("strict", n(o_("OR"), n("x"), n(o_("OR"), n("y"), n("deep")))),
            mb.constraint("notand", n(o_("NOT"), n(o_("AND"), n("u"), n("p")))),
            mb.constraint("arith", n(o_("GREATER"), n(o_("ADD"), n("x"), n(1)), n(2))),
        ]
    return mb.model(root, cs)


def twin_model(fm: AObj) -> AObj:
    """Same feature names, different structure (in place): alternative <-> or groups, mandatory <->
    optional single children. Used to expose state carried from one model to the next when that
    state is keyed by names (Feature hashes and compares by name)."""
    seen: set[int] = set()
    stack = [fm._f["root"]]
    while stack:
        f = stack.pop()
        if id(f) in seen:
            continue
        seen.add(id(f))
        for r in f._f["relations"]:
            n = len(r._f["children"])
            lo, hi = r._f["card_min"], r._f["card_max"]
            if n > 1 and (lo, hi) == (1, 1):
                r._f["card_max"] = n
            elif n > 1 and lo == 1 and hi == n:
                r._f["card_max"] = 1
            elif n == 1 and (lo, hi) == (1, 1):
                r._f["card_min"] = 0
            elif n == 1 and (lo, hi) == (0, 1):
                r._f["card_min"] = 1
            stack.extend(r._f["children"])
    return fm


def same_names_pair(mb: "ModelBuilder") -> tuple[AObj, AObj]:
    """Two models over the same feature names with different tree shapes (a chain and a flat tree)."""
    F = mb.feature
    r1, a1, b1, c1 = F("Root"), F("A"), F("B"), F("C")
    mb.relation(r1, [a1], 1, 1)
    mb.relation(a1, [b1], 0, 1)
    mb.relation(b1, [c1], 1, 1)
    r2, a2, b2, c2 = F("Root"), F("A"), F("B"), F("C")
    mb.relation(r2, [a2, b2], 1, 1)
    mb.relation(r2, [c2], 0, 1)
    return mb.model(r1, []), mb.model(r2, [])
