"""Builders of abstract model objects (AObj) whose methods are resolved from the analysed source."""
from __future__ import annotations

from typing import Any, Optional

from .absint import AObj, EnumVal, OrdInt
from .pm import ProgramModel


class ModelBuilder:
    def __init__(self, pm: ProgramModel) -> None:
        self.pm = pm
        ft = pm.enum_members(pm.cls("FeatureType")) if pm.has_cls("FeatureType") else {}
        self.boolean = EnumVal("FeatureType", "BOOLEAN", ft.get("BOOLEAN", "Boolean"))
        self.ops = pm.enum_members(pm.cls("ASTOperation")) if pm.has_cls("ASTOperation") else {}

    def op(self, name: str) -> EnumVal:
        return EnumVal("ASTOperation", name, self.ops.get(name, name))

    def feature(self, name: str, parent: Optional[AObj] = None, is_abstract: bool = False,
                ftype: Optional[EnumVal] = None, card: tuple[int, int] = (1, 1)) -> AObj:
        return AObj("Feature", name=name, parent=parent, relations=[], is_abstract=is_abstract,
                    feature_type=ftype or self.boolean,
                    feature_cardinality=AObj("Cardinality", min=card[0], max=card[1]),
                    attributes=[])

    def relation(self, parent: AObj, children: list[AObj], lo: int, hi: int,
                 attach: bool = True) -> AObj:
        r = AObj("Relation", parent=parent, children=list(children), card_min=lo, card_max=hi)
        if attach:
            parent._f["relations"].append(r)
            for c in children:
                c._f["parent"] = parent
        return r

    def node(self, data: Any, left: Optional[AObj] = None, right: Optional[AObj] = None) -> AObj:
        return AObj("Node", data=data, left=left, right=right)

    def ast(self, root: AObj) -> AObj:
        return AObj("AST", root=root)

    def constraint(self, name: str, root: AObj) -> AObj:
        return AObj("Constraint", name=name, _ast=self.ast(root))

    def model(self, root: AObj, ctcs: Optional[list[AObj]] = None) -> AObj:
        return AObj("FeatureModel", root=root, ctcs=list(ctcs or []))

    def attribute(self, name: str, default: Any = None, parent: Optional[AObj] = None,
                  domain: Any = None, null: Any = None) -> AObj:
        return AObj("Attribute", name=name, parent=parent, domain=domain, default_value=default,
                    null_value=null)
