"""Builders of abstract model objects (AObj) whose methods are resolved from the analysed source."""
from __future__ import annotations

from typing import Any, Optional

from .absint import AObj, EnumVal, OrdInt
from .pm import ProgramModel


DISCREPANCIES: list[tuple[str, str, str]] = []       # (class, field, text): constructors that do not keep what they get


def _same(spec: Any, got: Any) -> bool:
    """Does the object hold the value it was given? (containers by the identity of their elements)"""
    if isinstance(spec, AObj) or isinstance(got, AObj):
        return spec is got
    if isinstance(spec, (list, tuple)) and isinstance(got, (list, tuple)):
        return len(spec) == len(got) and all(_same(a, b) for a, b in zip(spec, got))
    if isinstance(spec, EnumVal) or isinstance(got, EnumVal):
        return spec == got
    if isinstance(spec, dict) and isinstance(got, dict):
        return list(spec) == list(got) and all(_same(spec[k], got[k]) for k in spec)
    return type(spec) is type(got) and spec == got


def _show(v: Any) -> str:
    if isinstance(v, AObj):
        return f"<{v._cls} {v._f.get('name', '')}>"
    if isinstance(v, (list, tuple)):
        return "[" + ", ".join(_show(x) for x in v) + "]"
    return repr(v)


class ModelBuilder:
    """Builds abstract model objects through the analysed classes' own API: the constructor is evaluated from
    source with the values of the specification (and relations are attached with `Feature.add_relation`, as the
    readers do), then each field is read back: a constructor or attach method that does not keep what it was given
    is recorded in DISCREPANCIES (reported by every check as <prop>-MODEL). Afterwards the fields the checks rely
    on are pinned to the specification, so that the rest of the analysis speaks about the intended model."""

    def __init__(self, pm: ProgramModel, style: str = "at-once") -> None:
        from .absint import Interp
        self.pm = pm
        self.style = style            # "at-once": Relation(parent, children, ..); "incremental": add_child one by one
        ft = pm.enum_members(pm.cls("FeatureType")) if pm.has_cls("FeatureType") else {}
        self.boolean = EnumVal("FeatureType", "BOOLEAN", ft.get("BOOLEAN", "Boolean"))
        self.ops = pm.enum_members(pm.cls("ASTOperation")) if pm.has_cls("ASTOperation") else {}
        self._it = Interp(pm)

    def _read(self, obj: AObj, field: str) -> Any:
        """The value of a field as the object's own class presents it (attribute, property or getter)."""
        from .absint import AbsRaise
        from .core import AnalysisError
        import ast as _ast
        before = set(obj._reads)
        try:
            return self._it.getattr(obj, field, _ast.Constant(value=None), None)
        except (AbsRaise, AnalysisError):
            return _NOVALUE
        finally:
            obj._reads.clear()               # reading back is not a read by the analysed code
            obj._reads.update(before)

    def _verify(self, cls: str, obj: AObj, spec: dict[str, Any], how: str) -> None:
        for k, want in spec.items():
            got = self._read(obj, "ast" if (cls == "Constraint" and k == "_ast") else k)
            if got is _NOVALUE:
                continue
            if cls == "Constraint" and k == "_ast":
                continue                      # compared structurally by the caller (the tree may be rewritten in place)
            if not _same(want, got):
                DISCREPANCIES.append((cls, k, f"{how}: {cls}.{k} was given {_show(want)} and holds {_show(got)}"))

    def _new(self, cls: str, args: list[Any], fields: dict[str, Any], verify: bool = True) -> AObj:
        from .absint import AbsRaise
        from .core import AnalysisError
        obj: Optional[AObj] = None
        if self.pm.has_cls(cls):
            try:
                obj = self._it.eval_call_class(self.pm.cls(cls), args)
            except AbsRaise as exc:
                if not self.pm.cls(cls).unit.env:
                    DISCREPANCIES.append((cls, "__init__", f"{cls}({', '.join(_show(a) for a in args)}) raises {exc.what}"))
                obj = None
            except AnalysisError:
                obj = None
        built = obj is not None
        if obj is None:
            obj = AObj(cls)
        elif verify and not self.pm.cls(cls).unit.env:
            self._verify(cls, obj, fields, f"{cls}({', '.join(_show(a) for a in args)})")
        for k, v in fields.items():
            self._pin(obj, k, v)
        if not built:
            obj._f.pop("_complete", None)     # a stand-in: a field it lacks is unknown, not absent
        # (an object whose constructor was evaluated holds every field the constructor sets: reading another one is an
        # AttributeError, as in Python - `getattr(model, "_memo", None)` and `hasattr` answer exactly)
        return obj

    def _pin(self, obj: AObj, k: str, v: Any) -> None:
        """Make the field hold the specified value (through the property setter when the class has one)."""
        from .absint import AbsMutation, AbsRaise
        from .core import AnalysisError
        try:
            self._it.setattr_obj(obj, k, v)
        except (AbsRaise, AbsMutation, AnalysisError):
            obj._f[k] = v

    def op(self, name: str) -> EnumVal:
        return EnumVal("ASTOperation", name, self.ops.get(name, name))

    def feature(self, name: str, parent: Optional[AObj] = None, is_abstract: bool = False,
                ftype: Optional[EnumVal] = None, card: tuple[int, int] = (1, 1)) -> AObj:
        cardo = self._new("Cardinality", [card[0], card[1]], {"min": card[0], "max": card[1]})
        ft = ftype or self.boolean
        rels: list[Any] = []
        return self._new("Feature", [name, rels, parent, is_abstract, ft, cardo], {
            "name": name, "parent": parent, "relations": rels, "is_abstract": is_abstract,
            "feature_type": ft, "feature_cardinality": cardo, "attributes": []})

    def relation(self, parent: AObj, children: list[AObj], lo: int, hi: int,
                 attach: bool = True) -> AObj:
        from .absint import AbsMutation, AbsRaise
        from .core import AnalysisError
        kids = list(children)
        prior = {id(c): c._f.get("parent") for c in kids}
        spec = {"parent": parent, "children": kids, "card_min": lo, "card_max": hi}
        if self.style == "incremental" and self.pm.has_cls("Relation") and \
                self.pm.method(self.pm.cls("Relation"), "add_child") is not None:
            # the idiom of the FaMa XML reader: an empty relation, filled child by child, then attached
            r = self._new("Relation", [parent, [], lo, hi], {}, verify=False)
            add = self.pm.method(self.pm.cls("Relation"), "add_child")
            try:
                for c in kids:
                    self._it.call(add, [r, c])
            except (AbsRaise, AbsMutation, AnalysisError) as exc:
                DISCREPANCIES.append(("Relation", "add_child", f"Relation.add_child raises {getattr(exc, 'what', exc)}"))
            how = f"Relation({_show(parent)}, [], {lo}, {hi}) filled with add_child"
        else:
            r = self._new("Relation", [parent, list(kids), lo, hi], {}, verify=False)
            how = f"Relation({_show(parent)}, {_show(kids)}, {lo}, {hi})"
        for c in kids:
            gp = self._read(c, "parent")
            if gp is not _NOVALUE and gp is not prior[id(c)]:
                DISCREPANCIES.append(("Relation", "__init__", f"{how} (not attached to any feature yet) changes the parent of "
                                      f"{_show(c)} to {_show(gp)}: building a relation must not edit the features it is given"))
                c._f["parent"] = prior[id(c)]
        if attach and self.pm.has_cls("Feature") and self.pm.method(self.pm.cls("Feature"), "add_relation") is not None:
            before = list(parent._f["relations"])
            try:
                self._it.call(self.pm.method(self.pm.cls("Feature"), "add_relation"), [parent, r])
            except (AbsRaise, AbsMutation, AnalysisError) as exc:
                DISCREPANCIES.append(("Feature", "add_relation", f"Feature.add_relation raises {getattr(exc, 'what', exc)}"))
            got_rels = self._read(parent, "relations")
            if got_rels is not _NOVALUE and not _same(before + [r], got_rels):
                DISCREPANCIES.append(("Feature", "relations", f"{how} attached with add_relation: the parent's relations are "
                                      f"{_show(got_rels)}"))
            for c in kids:
                gp = self._read(c, "parent")
                if gp is not _NOVALUE and gp is not parent:
                    DISCREPANCIES.append(("Feature", "parent", f"{how} attached with add_relation: child {_show(c)} has parent "
                                          f"{_show(gp)}"))
            parent._f["relations"] = before
        if not self.pm.cls("Relation").unit.env if self.pm.has_cls("Relation") else False:
            self._verify("Relation", r, spec, how)
        for k, v in spec.items():
            self._pin(r, k, v)
        r._f.pop("_complete", None)
        if attach:
            parent._f["relations"].append(r)
            for c in children:
                c._f["parent"] = parent
        return r

    def node(self, data: Any, left: Optional[AObj] = None, right: Optional[AObj] = None) -> AObj:
        return self._new("Node", [data, left, right], {"data": data, "left": left, "right": right})

    def ast(self, root: AObj) -> AObj:
        return self._new("AST", [root], {"root": root})

    def constraint(self, name: str, root: AObj) -> AObj:
        a = self.ast(root)
        before = snapshot(a)
        c = self._new("Constraint", [name, a], {"name": name, "_ast": a})
        held = self._read(c, "ast")
        if held is not _NOVALUE and (held is not a or snapshot(a) != before):
            DISCREPANCIES.append(("Constraint", "ast", f"Constraint({name!r}, ...): the expression tree it was given is not the "
                                  f"one it holds (replaced or rewritten in place)"))
        return c

    def model(self, root: AObj, ctcs: Optional[list[AObj]] = None) -> AObj:
        cs = list(ctcs or [])
        m = self._new("FeatureModel", [root, list(cs)], {"root": root})
        got = self._read(m, "ctcs")
        if got is not _NOVALUE and not _same(cs, got):
            DISCREPANCIES.append(("FeatureModel", "ctcs", f"FeatureModel(root, {len(cs)} constraints) holds "
                                  f"{len(got) if isinstance(got, (list, tuple)) else got} constraints"))
        m._f["ctcs"] = cs
        return m

    def attribute(self, name: str, default: Any = None, parent: Optional[AObj] = None,
                  domain: Any = None, null: Any = None) -> AObj:
        a = self._new("Attribute", [name, domain, default, null],
                      {"name": name, "domain": domain, "default_value": default, "null_value": null})
        a._f["parent"] = parent
        return a


_NOVALUE = object()


def frozen_list(items: list[Any]) -> Any:
    from .absint import TaggedList
    t = TaggedList(items)
    t._frozen = True
    return t


class FrozenDict(dict):                                  # type: ignore[type-arg]
    """A dict owned by the input model: a store, pop, update ... through the evaluator raises AbsMutation."""
    _frozen = True


def frozen_value(v: Any) -> Any:
    """Containers inside an attribute value are the model's own objects as well."""
    if isinstance(v, dict):
        return FrozenDict((k, frozen_value(x)) for k, x in v.items())
    if isinstance(v, list):
        return frozen_list([frozen_value(x) for x in v])
    return v


def freeze_model(fm: AObj) -> None:
    """Mark every object and container owned by the model as input-owned: a store into them
    during formula evaluation raises AbsMutation."""
    seen: set[int] = set()

    def fz(o: Any) -> Any:
        if isinstance(o, AObj):
            if id(o) in seen:
                return o
            seen.add(id(o))
            for k, v in list(o._f.items()):
                if o._cls == "Attribute" and k in ("default_value", "null_value") and isinstance(v, (list, dict)):
                    o._f[k] = frozen_value(v)
                elif isinstance(v, list):
                    o._f[k] = frozen_list([fz(x) for x in v])
                elif isinstance(v, AObj):
                    fz(v)
            o._f["_frozen"] = True
        return o
    fz(fm)


def snapshot(fm: AObj, skip: tuple[str, ...] = ()) -> Any:
    """Structural snapshot of a model (for 'unchanged' comparisons)."""
    seen: dict[int, int] = {}
    skipped = ("_frozen", "_complete") + tuple(skip)

    def sn(o: Any) -> Any:
        if isinstance(o, AObj):
            if id(o) in seen:
                return ("ref", seen[id(o)])
            seen[id(o)] = len(seen)
            return (o._cls, tuple((k, sn(v)) for k, v in sorted(o._f.items())
                                  if k not in skipped))
        if isinstance(o, (list, tuple)):
            return tuple(sn(x) for x in o)
        if isinstance(o, (set, frozenset)):
            return ("set", tuple(sorted(repr(sn(x)) for x in o)))
        if isinstance(o, OrdInt):
            return o.v
        if isinstance(o, EnumVal):
            return ("enum", o.cls, o.name)
        return o
    return sn(fm)


def rich_model(mb: "ModelBuilder", ctcs: bool = True) -> AObj:
    """A model realising every relation kind, several relations per parent, abstract features,
    attributes and every constraint class."""
    F = mb.feature
    root = F("Root", is_abstract=True)
    M, O = F("M", is_abstract=True), F("O")
    x, y, z = F("x"), F("y"), F("z")
    u, v = F("u"), F("v")
    p, q = F("p"), F("q")
    k1, k2, k3 = F("k1"), F("k2"), F("k3")
    deep, deeper = F("deep"), F("deeper")
    solo = F("solo")
    mb.relation(root, [M], 1, 1)
    mb.relation(root, [O], 0, 1)
    mb.relation(root, [p, q], 0, 1)            # mutex
    mb.relation(M, [x, y, z], 1, 3)            # or
    mb.relation(M, [solo], 1, 1)               # mandatory next to a group
    mb.relation(O, [u, v], 1, 1)               # alternative
    mb.relation(x, [k1, k2, k3], 2, 3)         # cardinality
    s1, s2, s3 = F("s1"), F("s2"), F("s3")
    mb.relation(y, [s1, s2, s3], 2, -1)        # [2..*]
    mb.relation(u, [deep], 0, 1)
    mb.relation(deep, [deeper], 1, 1)
    a = mb.attribute("cost", 3, x)
    x._f["attributes"].append(a)
    b = mb.attribute("label", "hi", deeper)
    deeper._f["attributes"].append(b)
    cs = []
    if ctcs:
        n, o_ = mb.node, mb.op
        cs = [
            mb.constraint("req", n(o_("REQUIRES"), n("x"), n("u"))),
            mb.constraint("exc", n(o_("EXCLUDES"), n("p"), n("v"))),
            mb.constraint("imp", n(o_("IMPLIES"), n("y"), n("solo"))),
            mb.constraint("or", n(o_("OR"), n(o_("NOT"), n("z")), n(o_("NOT"), n("q")))),
            mb.constraint("pseudo", n(o_("IMPLIES"), n("k1"), n(o_("AND"), n("k2"), n("O")))),
            mb.constraint("strict", n(o_("OR"), n("x"), n(o_("OR"), n("y"), n("deep")))),
            mb.constraint("notand", n(o_("NOT"), n(o_("AND"), n("u"), n("p")))),
            mb.constraint("arith", n(o_("GREATER"), n(o_("ADD"), n("x"), n(1)), n(2))),
        ]
    return mb.model(root, cs)


def twin_model(fm: AObj) -> AObj:
    """Same feature names, different structure (in place): alternative <-> or groups, mandatory <->
    optional single children. Used to expose state carried from one model to the next when that
    state is keyed by names (Feature hashes and compares by name)."""
    seen: set[int] = set()
    stack = [fm._f["root"]]
    while stack:
        f = stack.pop()
        if id(f) in seen:
            continue
        seen.add(id(f))
        for r in f._f["relations"]:
            n = len(r._f["children"])
            lo, hi = r._f["card_min"], r._f["card_max"]
            if n > 1 and (lo, hi) == (1, 1):
                r._f["card_max"] = n
            elif n > 1 and lo == 1 and hi == n:
                r._f["card_max"] = 1
            elif n == 1 and (lo, hi) == (1, 1):
                r._f["card_min"] = 0
            elif n == 1 and (lo, hi) == (0, 1):
                r._f["card_min"] = 1
            stack.extend(r._f["children"])
    return fm


def same_names_pair(mb: "ModelBuilder") -> tuple[AObj, AObj]:
    """Two models over the same feature names with different tree shapes (a chain and a flat tree)."""
    F = mb.feature
    r1, a1, b1, c1 = F("Root"), F("A"), F("B"), F("C")
    mb.relation(r1, [a1], 1, 1)
    mb.relation(a1, [b1], 0, 1)
    mb.relation(b1, [c1], 1, 1)
    r2, a2, b2, c2 = F("Root"), F("A"), F("B"), F("C")
    mb.relation(r2, [a2, b2], 1, 1)
    mb.relation(r2, [c2], 0, 1)
    return mb.model(r1, []), mb.model(r2, [])
