"""Static analysis of flamapy/fm_metamodel against properties C01-C20 (see /verif/DESIGN.md)."""
