"""Round 8 prompt: one *interaction* break (manifests only when two or three independent aspects of the input
co-occur - the residue the CODEC closure declares as not decided), one *sequence* break (needs a particular order
of public API calls on the same objects) and one refactor that modernises code with standard-library facilities.
usage: agent_prompt8.py Cxx  (writes /tmp/prop-Cxx.txt from properties.jsonl when missing)"""
import sys, json, glob, os
pid = sys.argv[1]
pf = f"/tmp/prop-{pid}.txt"
if not os.path.exists(pf):
    for line in open("/verif/properties.jsonl"):
        p = json.loads(line)
        if p["id"] == pid:
            open(pf, "w").write(f"{p['id']}: {p['title']}\n\nStatement: {p['statement']}\n\nQuantifier: "
                                f"{p['quantifier']['text']}\n\nCode it is anchored in: "
                                f"{', '.join(p['anchors'].get('files', []))}\n")
prop = open(pf).read()
prev = []
for p in sorted(glob.glob(f"/verif/seeded/{pid}-*/meta.json")):
    m = json.load(open(p))
    prev.append(f"- [{m.get('kind', 'break')}] " + (m.get("summary") or "")[:200])
prev = "\n".join(prev)
wt = f"/tmp/wt{os.environ.get('ROUND', '8')}-{pid}"
print(f"""You are helping to evaluate a verification effort for a Python library by writing realistic source changes.

The library is flamapy/fm_metamodel (a feature-model metamodel with readers/writers for UVL, AFM, FeatureIDE, JSON, Glencoe, SPLOT, Clafer and tree-based analysis operations). You have your own scratch git worktree of it at {wt} (work ONLY inside that directory; never touch /repo or /verif, and do not read anything under /verif). Do NOT use `git stash`; use `git diff > file` and `git checkout -- .` / `git apply`.

The property under study:

{prop}

All changes are to the package under {wt}/flamapy/metamodels/fm_metamodel. Every change must compile/import and leave the existing test suite passing (144 tests):
    cd {wt} && PYTHONPATH={wt} /venv/bin/python -m pytest -q -p no:cacheprovider tests

PART 1 - AN INTERACTION BREAK (A): a realistic source change that BREAKS the property above, but ONLY for inputs in which two or three INDEPENDENT aspects co-occur; every input that shows just one of the aspects must still behave exactly as before. Examples of aspects: a particular relation kind / cardinality; a position in the tree (root, leaf, child of a group, child of an optional feature, depth); a name shape (needs quoting, non-ASCII, keyword, blank inside); a feature decoration (abstract, typed, feature cardinality, attribute of a particular value kind); a particular operator or nesting in a constraint; the same feature used in several constraints; several relations under one parent; the order in which things were added. For example: an attribute value of kind X is mishandled only on a feature that is a member of an [a..b] group; a name that needs quoting is mishandled only where it is the right operand of an operator nested under a negation; a count is wrong only for an abstract feature that is both a group member and a group parent. The change should look like something a maintainer would write (a fast path, a special case, a tidy-up, a 'fix' for something else). The list at the end shows what earlier rounds already proposed: do NOT repeat those or close variants.
Deliver under {wt}/SEED/A/: patch.diff (`git diff` of the change against HEAD); demo.py - standalone, public API, exits 0 printing PASS on the UNCHANGED worktree and exits 1 printing FAIL (saying what went wrong) with the patch applied, demonstrating a violation of the property AS STATED; it must ALSO show, for each aspect alone, an input that still behaves correctly with the patch (run as `PYTHONPATH={wt} /venv/bin/python SEED/A/demo.py` from {wt}; do not hard-code {wt}); meta.json {{"property": "{pid}", "kind": "break", "summary": "...", "needs_to_manifest": "... name the aspects that must co-occur ...", "files_touched": [...]}}.

PART 2 - A SEQUENCE BREAK (B): a realistic source change that BREAKS the property above only after a particular SEQUENCE of public API calls - at least three steps on the same objects or in the same process, where every shorter prefix of the sequence and every single call on fresh objects behaves exactly as before: for example the same reader / writer / operation OBJECT used for a second or third input; a model queried, then edited through its public API (add_relation, add_child, add_attribute, a setter, ctcs.append ...), then queried or written again; a result object kept by the caller, the caller mutating it, and the next call being affected; a transformation called, failing with an error on a bad input, then called on a good input; two different transformations or operations interleaved on one model. Do NOT repeat what the list at the end already has.
Deliver under {wt}/SEED/B/ with the same three files (demo.py as in part 1: PASS unchanged / FAIL patched, and it shows that the shorter sequences still behave).

PART 3 - ONE BEHAVIOUR-PRESERVING MODERNISATION (R1): change NOTHING observable for any input (same results, same exceptions, same effects on the arguments, same files written, same behaviour over any sequence of calls) but rewrite the code that this property reaches with standard-library facilities a maintainer modernising or speeding up the package would use - pick at least three you have NOT seen in the list at the end, for example: `__slots__`; `functools.cached_property` or a per-call memo that is provably fresh; `functools.singledispatchmethod`; `abc.ABC`/`typing.Protocol` base classes; `enum.Flag`/`IntEnum`; `io.StringIO` or list-and-join text building; `str.translate`/`str.maketrans`, `str.partition`, `str.removeprefix`, `format_map`, `string.Template`, `textwrap.indent`; pre-compiled `re` patterns with named groups or `re.VERBOSE`; `bisect`, `heapq`, `collections.ChainMap`/`OrderedDict`/`defaultdict`, `types.MappingProxyType`/`SimpleNamespace`; `itertools.pairwise/starmap/zip_longest/compress/product/tee`; `operator.itemgetter`; `contextlib.suppress/ExitStack`; `typing.NamedTuple`/`TypedDict`; `dataclasses` with `slots=True`; structural pattern matching on tuples/sequences; `sys.intern`; try/except/else/finally with `raise ... from`; local functions with `nonlocal`; `*`-unpacking in calls and displays; dict/set comprehensions and `|` merging of dicts; conditional imports; `__getattr__` at module level; `__class_getitem__`. It must be at least 40 changed lines.
Deliver under {wt}/SEED/R1/: patch.diff (`git add -N` new files first so that `git diff` includes them); demo.py - standalone; it checks the property as stated on a good spread of in-scope inputs AND prints a digest of results (values, orders, exception types) for a spread of inputs including ill-formed ones; it exits 0 printing PASS both on the unchanged and on the patched worktree and its full output must be byte-identical on both; meta.json {{"property": "{pid}", "kind": "refactor", "summary": "...", "why_behaviour_is_unchanged": "...", "files_touched": [...]}}.

Verify for each of the three changes: tests pass with the patch applied; the demo behaves as required with and without the patch (for R1: `diff` of the two outputs is empty). Leave the worktree clean (git checkout -- . and remove the new files you added, after saving the patch) at the end; the SEED directory is untracked and stays.

Report at the end, briefly: one line per change with its summary and the confirmation of the verifications. Also mention, separately, any behaviour of the UNCHANGED code that you noticed to contradict the property as stated (input and what happens) - do not fix it.

ALREADY PROPOSED (do not repeat these or close variants):
{prev}""")
