#!/venv/bin/python
"""Run catalogue entries (selftest/catalogue.py) in parallel.

usage: runmut.py [--tests] [--only SUBSTR] [--jobs N]
Each entry: dict(id, props, file, old, new, expect='fire'|'silent', rule=optional substring that
must occur in the findings when firing).
"""
import os, sys, shutil, subprocess, tempfile, json
from concurrent.futures import ThreadPoolExecutor
sys.path.insert(0, os.path.dirname(os.path.dirname(os.path.abspath(__file__))))
from tools.mut import make_copy, run_checks, run_tests, PKG  # noqa: E402


def run_entry(e, tests):
    tmp = make_copy(tests)
    try:
        edits = e.get("edits") or [(e["file"], e["old"], e["new"])]
        for file, old, new in edits:
            path = os.path.join(tmp, PKG, file)
            s = open(path).read()
            if old not in s:
                return e["id"], "BROKEN-ENTRY", f"old text not found in {file}", None
            open(path, "w").write(s.replace(old, new, 1))
        t = run_tests(tmp) if tests else None
        res = run_checks(tmp, e["props"])
        fired = [p for p, (rc, out) in res.items() if rc == 1]
        errs = [p for p, (rc, out) in res.items() if rc == 2]
        findings = [l.strip() for p, (rc, out) in res.items() for l in out.splitlines()
                    if l.startswith(("  finding", "ANALYSIS-ERROR"))]
        if e.get("expect", "fire") == "fire":
            ok = bool(fired) and (not e.get("rule") or any(e["rule"] in f for f in findings))
        else:
            ok = not fired and not errs
        return e["id"], "ok" if ok else "FAIL", f"fired={fired} errs={errs} " + " | ".join(f[:140] for f in findings[:3]), t
    finally:
        shutil.rmtree(tmp, ignore_errors=True)


def main():
    from selftest.catalogue import CATALOGUE
    tests = "--tests" in sys.argv
    only = sys.argv[sys.argv.index("--only") + 1] if "--only" in sys.argv else None
    jobs = int(sys.argv[sys.argv.index("--jobs") + 1]) if "--jobs" in sys.argv else 14
    entries = [e for e in CATALOGUE if not only or only in e["id"] or only in ",".join(e["props"])]
    bad = 0
    with ThreadPoolExecutor(jobs) as ex:
        for id_, status, detail, t in ex.map(lambda e: run_entry(e, tests), entries):
            if status != "ok" or (t and t[0] != 0):
                bad += 1
            print(f"{status:6} {id_:40} {detail[:260]}" + (f"  tests={t}" if t else ""))
    print(f"{len(entries)} entries, {bad} not ok")
    return 1 if bad else 0


if __name__ == "__main__":
    sys.exit(main())
