#!/venv/bin/python
"""Apply one textual edit to a scratch copy of /repo's package and run checks against it.

usage: mut.py PROP[,PROP..] FILE OLD NEW [--tests] [--count N]
FILE is relative to the package dir (e.g. models/feature_model.py). The scratch copy lives under
$TMPDIR (outside /repo and /verif) and is removed afterwards.
"""
import os, shutil, subprocess, sys, tempfile

PKG = "flamapy/metamodels/fm_metamodel"

def make_copy(with_tests=False):
    tmp = tempfile.mkdtemp(prefix="vmut-")
    shutil.copytree("/repo/flamapy", os.path.join(tmp, "flamapy"),
                    ignore=shutil.ignore_patterns("__pycache__"))
    if with_tests:
        shutil.copytree("/repo/tests", os.path.join(tmp, "tests"),
                        ignore=shutil.ignore_patterns("__pycache__"))
        os.symlink("/repo/resources", os.path.join(tmp, "resources"))   # read-only use by tests/demos
    return tmp

def run_checks(tmp, props, tier="quick"):
    out = {}
    env = dict(os.environ, VERIF_REPO=tmp, VERIF_EVIDENCE_DIR=os.path.join(tmp, "_ev"))
    def one(p):
        r = subprocess.run(["/venv/bin/python", "-m", "sa", p, "--tier", tier], cwd="/verif",
                           env=env, capture_output=True, text=True)
        return p, (r.returncode, r.stdout + r.stderr)
    import concurrent.futures as cf
    with cf.ThreadPoolExecutor(min(16, max(1, len(props)))) as ex:
        for p, res in ex.map(one, props):
            out[p] = res
    return out

def run_tests(tmp):
    env = dict(os.environ, PYTHONPATH=tmp)
    try:
        r = subprocess.run(["/venv/bin/python", "-m", "pytest", "-q", "-x", "-p", "no:cacheprovider",
                            "tests"], cwd=tmp, env=env, capture_output=True, text=True, timeout=300)
    except subprocess.TimeoutExpired:
        return 124, "the pinned tests do not terminate within 300 s"
    tail = (r.stdout.strip().splitlines() or [""])[-1]
    return r.returncode, tail

def main():
    args = [a for a in sys.argv[1:] if not a.startswith("--")]
    props, file, old, new = args[0].split(","), args[1], args[2], args[3]
    tests = "--tests" in sys.argv
    tmp = make_copy(tests)
    try:
        path = os.path.join(tmp, PKG, file)
        s = open(path).read()
        if old not in s:
            print("OLD not found"); return 3
        s2 = s.replace(old, new, 1)
        open(path, "w").write(s2)
        if tests:
            print("tests:", run_tests(tmp))
        for p, (rc, out) in run_checks(tmp, props).items():
            lines = [l for l in out.splitlines() if l.startswith(("VIOLATION", "  finding", "ANALYSIS", "KNOWN", "Traceback")) or "Error" in l]
            print(f"{p}: exit={rc}")
            for l in lines[:12]:
                print("   ", l[:300])
    finally:
        shutil.rmtree(tmp, ignore_errors=True)

if __name__ == "__main__":
    sys.exit(main())
