#!/venv/bin/python
"""Evaluate the round-8 deliveries of one property: round8.py Cxx [--keep]
A -> <prop>-M (interaction break), B -> <prop>-P (call-sequence break), R1 -> <prop>-R9 (modernisation, all 20 checks).
Prints one summary line per seed; with --keep confirmed seeds are stored under /verif/seeded/."""
import json, os, subprocess, sys
import concurrent.futures as cf

pid = sys.argv[1]
keep = "--keep" in sys.argv
wt = f"/tmp/wt8-{pid}"
jobs = [("A", f"{pid}-M", []), ("B", f"{pid}-P", []), ("R1", f"{pid}-R9", ["--refactor", "--all"])]


def one(job):
    sub, sid, extra = job
    d = os.path.join(wt, "SEED", sub)
    if not os.path.exists(os.path.join(d, "patch.diff")):
        return sid, None, "missing"
    cmd = ["/venv/bin/python", "/verif/tools/seed_eval.py", d, pid] + extra + (["--keep", sid] if keep else [])
    r = subprocess.run(cmd, capture_output=True, text=True, cwd="/verif")
    try:
        out = json.loads(r.stdout[:r.stdout.rindex("}") + 1])
    except Exception:
        return sid, None, (r.stdout + r.stderr)[-600:]
    return sid, out, ""


with cf.ThreadPoolExecutor(3) as ex:
    for sid, out, err in ex.map(one, jobs):
        if out is None:
            print(f"{sid}: NOT EVALUATED {err}")
            continue
        print(f"{sid}: confirmed={out['confirmed']} demo_clean={out['demo_clean'][0]} demo_patched={out['demo_patched'][0]} "
              f"tests={out['tests_patched'][0]} checks={ {p: rc for p, rc in out['checks'].items() if rc != 0} }")
        for f in out["findings"][:3]:
            print("     ", f[:400])
