#!/venv/bin/python
"""Write /verif/seeded/README.md from the meta.json files."""
import glob, json, os
rows = []
for meta in sorted(glob.glob("/verif/seeded/*/meta.json")):
    m = json.load(open(meta))
    rows.append((os.path.basename(os.path.dirname(meta)), m.get("breaks_property"), (m.get("summary") or "")[:160].replace("|", "/").replace("\n", " "),
                 (m.get("needs_to_manifest") or "")[:140].replace("|", "/").replace("\n", " "), ", ".join(m.get("detected_by", [])) or "—",
                 m.get("first_detected", "")))
out = ["# Seeded changes", "", "Independent changes written by sub-agents that saw only the property text and a scratch worktree.",
       "Each was confirmed by `tools/seed_eval.py` (demo passes on the unchanged tree, fails with the patch; 144 tests pass with the patch).",
       "`caught by` = checks that exit 1 on the patched copy **now**; `note` says whether a check had to be strengthened first.", "",
       "| id | property | change | needs to manifest | caught by | note |", "|---|---|---|---|---|---|"]
for r in rows:
    out.append("| " + " | ".join(str(x) for x in r) + " |")
open("/verif/seeded/README.md", "w").write("\n".join(out) + "\n")
print(len(rows), "seeds")
