#!/venv/bin/python
"""Store the round-8 break seeds (A -> <prop>-M interaction, B -> <prop>-P call sequence) under /verif/seeded with the
verdict of the property's own check now and the record of what happened when they were delivered."""
import json, os, re, subprocess, sys
import concurrent.futures as cf

AS_DELIVERED = {
    "detected": "C02-M C07-M C09-M C13-M C14-M C15-M C17-M C18-M C16-P".split(),
    "incidental": {"C19-P": "reported as delivered, but through the arity of a stubbed call (an incidental reason; that rule now tolerates "
                            "further parameters) - now reported by C19-GENATTR sequence:same-object-several-attributes-with-edits"},
    "exit2": {"C03-M": "exit 2 at first (Feature.feature_cardinality outside the abstract contexts of C03-LIFT) - the contexts now vary "
                       "the fields the queries must not depend on",
              "C07-P": "exit 2 at first (os.stat outside the fragment) - the virtual file system has modification times now; "
                       "reported by the read-edit-read history"},
    "by-round-rule": {"C06-P": "detected when first evaluated, by the failed-then-completed writer sequence built for C11-P",
                      "C15-P": "detected when first evaluated, by the operation sequences built for C13-P"},
}
LESSON = {
    "M": "missed at first: the two aspects never met on one feature / constraint - pairwise interaction family, polarity and "
         "relatives families, decorated contexts",
    "P": "missed at first: every history rule used a fresh object per step - sequences on one reader / writer / operation object, "
         "edits through the public API between two calls",
}


def one(job):
    pid, sub, sid = job
    d = f"/tmp/wt8-{pid}/SEED/{sub}"
    if not os.path.exists(d + "/patch.diff"):
        return sid, "missing"
    r = subprocess.run(["/venv/bin/python", "/verif/tools/seed_eval.py", d, pid, "--keep", sid], capture_output=True, text=True, cwd="/verif")
    mp = f"/verif/seeded/{sid}/meta.json"
    if not os.path.exists(mp):
        return sid, "NOT CONFIRMED " + r.stdout[-300:]
    m = json.load(open(mp))
    det = pid in m.get("detected_by", [])
    m["kind"] = "break"
    m["round"] = 8
    m["last_verdict"] = "detected" if det else ("analysis-broken" if m.get("check_exit_codes", {}).get(pid) == 2 else "missed")
    f0 = (m.get("findings") or [""])[0]
    mm = re.match(r"finding: (\S+ \[[^\]]*\])", f0)
    m["caught_by_rule"] = mm.group(1) if (mm and det) else ("—" if not det else pid)
    if sid in AS_DELIVERED["detected"]:
        m["first_detected"] = "detected as delivered"
    elif sid in AS_DELIVERED["incidental"]:
        m["first_detected"] = AS_DELIVERED["incidental"][sid]
    elif sid in AS_DELIVERED["exit2"]:
        m["first_detected"] = AS_DELIVERED["exit2"][sid]
    elif sid in AS_DELIVERED["by-round-rule"]:
        m["first_detected"] = AS_DELIVERED["by-round-rule"][sid]
    else:
        m["first_detected"] = LESSON[sid[-1]] if det else "missed (see DESIGN §9, round 8)"
    json.dump(m, open(mp, "w"), indent=1)
    return sid, m["last_verdict"] + " " + m["caught_by_rule"]


jobs = [(f"C{i:02d}", sub, f"C{i:02d}-{let}") for i in range(1, 21) for sub, let in (("A", "M"), ("B", "P"))]
with cf.ThreadPoolExecutor(4) as ex:
    for sid, res in ex.map(one, jobs):
        print(sid, res[:160], flush=True)
