import sys, json, glob
pid = sys.argv[1]
prop = open(f"/tmp/prop-{pid}.txt").read()
prev = []
for p in sorted(glob.glob(f"/verif/seeded/{pid}-*/meta.json")):
    m = json.load(open(p))
    prev.append("- " + (m.get("summary") or "")[:300])
prev = "\n".join(prev)
wt = f"/tmp/wt3-{pid}"
print(f"""You are helping to evaluate a verification effort for a Python library by writing realistic source changes.

The library is flamapy/fm_metamodel (a feature-model metamodel with readers/writers for UVL, AFM, FeatureIDE, JSON, Glencoe, SPLOT, Clafer and tree-based analysis operations). You have your own scratch git worktree of it at {wt} (work ONLY inside that directory; never touch /repo or /verif, and do not read anything under /verif). Do NOT use `git stash` (stashes are shared between worktrees); use `git diff > file` and `git checkout -- .` / `git apply`.

The property under study:

{prop}

YOUR TASK has two parts. All changes are to the package under {wt}/flamapy/metamodels/fm_metamodel. Every change must compile/import and leave the existing test suite passing (144 tests). Run it with:
    cd {wt} && PYTHONPATH={wt} /venv/bin/python -m pytest -q -p no:cacheprovider tests
(PYTHONPATH makes Python use the worktree's copy of the package instead of the installed one.)

PART 1 - THREE BEHAVIOUR-PRESERVING REFACTORS (call them R1, R2, R3). Each rewrites code that the property above is about (the functions/classes named in its ANCHORS, or helpers they call) in the way a maintainer would during clean-up or optimisation, WITHOUT changing observable behaviour for ANY input: the property must hold after the change exactly as before, and the results for every input must be identical. Make them substantial, not cosmetic, and different from each other in style. Ideas: replace a loop by a comprehension / generator / itertools / functools call or the reverse; replace an if/elif chain by a dict dispatch or match statement; extract a helper function or method, or inline one; switch recursion to an explicit stack/queue or the reverse; change a local data structure (list <-> deque, dict <-> two lists, set <-> dict keys) while preserving order where order matters; use early returns / guard clauses; use *args/**kwargs, keyword arguments, default arguments, dataclass-style helpers, local closures, class-level constants, properties, str.join / f-strings / format, enumerate/zip, any/all, sorted with key, operator module functions, a context manager, try/except/else around the same calls. Be careful that the refactor REALLY is behaviour-preserving (same results, same order where order is observable, same exceptions of the same types for invalid input, no new mutation of inputs, no new shared state).
For EACH refactor X in (R1, R2, R3) deliver under {wt}/SEED/X/:
  - patch.diff : `git diff` of the change against the worktree's HEAD (only that change)
  - demo.py    : a standalone differential program (run as `PYTHONPATH={wt} /venv/bin/python SEED/X/demo.py` from {wt}) that exercises the refactored code through the public API on a good spread of inputs (including the corner cases in the property's quantifier) and compares against EXPECTED VALUES that you recorded from the UNCHANGED worktree and embedded in demo.py; it exits 0 and prints PASS both on the unchanged worktree and with patch.diff applied. Do not hard-code {wt} inside demo.py.
  - meta.json  : {{"property": "{pid}", "kind": "refactor", "summary": "...", "files_touched": [...]}}

PART 2 - ONE BREAKING CHANGE (call it A): a small source change that BREAKS the property above for some input in its quantifier, still compiles and leaves the 144 tests passing. Aim for a SUBTLE, realistic change that a reviewer could wave through. Other people have ALREADY proposed the changes below - do NOT repeat them or close variants (same code site, or same idea at a sibling site); look for a different mechanism (e.g. hidden state shared between calls or objects, aliasing of a returned or stored collection, an error path, an encoding or locale dependence, a dependence on iteration order of a set, a boundary value, an interaction of two features of the input, a subclass/override, a default argument, a cache):
{prev}
Deliver under {wt}/SEED/A/: patch.diff; demo.py that exits 0 printing PASS on the UNCHANGED worktree and exits 1 printing FAIL (with what went wrong) with the patch applied, demonstrating a violation of the property as stated through the public API (do not hard-code {wt}); meta.json {{"property": "{pid}", "kind": "break", "summary": "...", "needs_to_manifest": "...", "files_touched": [...]}}.

Verify for each of the four changes: tests pass with the patch applied; the demo behaves as required with and without the patch. Leave the worktree clean (git checkout -- .) at the end; the SEED directory is untracked and stays.

Report at the end, briefly: one line per change with its summary and the confirmation of the verifications.""")
