import sys, json, glob, re, os
pid = sys.argv[1]
prop = open(f"/tmp/prop-{pid}.txt").read()
prev = []
for p in sorted(glob.glob(f"/verif/seeded/{pid}-*/meta.json")):
    m = json.load(open(p))
    prev.append(f"- [{m.get('kind', 'break')}] " + (m.get("summary") or "")[:220])
prev = "\n".join(prev)
wt = f"/tmp/wt5-{pid}"
print(f"""You are helping to evaluate a verification effort for a Python library by writing realistic source changes.

The library is flamapy/fm_metamodel (a feature-model metamodel with readers/writers for UVL, AFM, FeatureIDE, JSON, Glencoe, SPLOT, Clafer and tree-based analysis operations). You have your own scratch git worktree of it at {wt} (work ONLY inside that directory; never touch /repo or /verif, and do not read anything under /verif). Do NOT use `git stash`; use `git diff > file` and `git checkout -- .` / `git apply`.

The property under study:

{prop}

All changes are to the package under {wt}/flamapy/metamodels/fm_metamodel. Every change must compile/import and leave the existing test suite passing (144 tests):
    cd {wt} && PYTHONPATH={wt} /venv/bin/python -m pytest -q -p no:cacheprovider tests

PART 1 - TWO BREAKING CHANGES (A and B): each a small, subtle, realistic source change that BREAKS the property above for some input in its quantifier while the 144 tests still pass. The list at the end shows what earlier rounds already proposed (a dozen per property): do NOT repeat those or close variants; find mechanisms and code sites nobody used. Think about: interactions of TWO features of the input that are each handled correctly alone; the second/third element of a sequence handled differently from the first; an `else` branch or default that is reached only for an unusual but legal input; a helper that is correct for one caller and wrong for another; state on an object that is reused; order of two statements; an off-by-one in a slice or range; a condition that is true for every test model; integer vs float; `is` vs `==`; `or`-defaults that swallow 0 / "" / []; shadowed names; a changed regular expression; Unicode normalisation or case mapping; line endings; sorting that is not stable or uses a different key; truncation; a sentinel value that can collide with real data.
For each X in (A, B) deliver under {wt}/SEED/X/: patch.diff (`git diff` of only that change against HEAD); demo.py - standalone, public API, exits 0 printing PASS on the UNCHANGED worktree and exits 1 printing FAIL (saying what went wrong) with the patch applied, demonstrating a violation of the property AS STATED (run as `PYTHONPATH={wt} /venv/bin/python SEED/X/demo.py` from {wt}; do not hard-code {wt}); meta.json {{"property": "{pid}", "kind": "break", "summary": "...", "needs_to_manifest": "...", "files_touched": [...]}}.

PART 2 - TWO OUT-OF-SCOPE BEHAVIOUR CHANGES (N1 and N2): changes to code the property is about that DO change observable behaviour, but ONLY in ways the property does not speak about, so that the property as stated still holds for EVERY input in its quantifier. Examples: a different (still library-defined) error message or a more specific exception subclass for inputs the property excludes (ill-formed models, documents outside the fragment); different text in __str__/__repr__ or log messages; an additional warning; accepting an extra input form that was rejected before and is outside the quantifier; a different but equally valid order where the property fixes no order; different internal representation with the same public behaviour for in-scope inputs; different behaviour for ill-formed inputs (None root, relations without children, duplicated names). They must be realistic maintenance changes, and they must NOT weaken anything the property promises.
For each X in (N1, N2) deliver under {wt}/SEED/X/: patch.diff; demo.py - standalone; it must (i) show on at least one OUT-OF-SCOPE input that behaviour differs between the unchanged and the patched worktree (embed the unchanged behaviour as recorded values) and (ii) check the property as stated on a good spread of IN-SCOPE inputs; it exits 0 printing PASS when (ii) holds - on the unchanged AND on the patched worktree - and prints one line `DIFFERS: ...` per out-of-scope difference it sees (so: no DIFFERS lines unchanged, at least one patched; exit code 0 both times); meta.json {{"property": "{pid}", "kind": "out-of-scope", "summary": "...", "why_property_still_holds": "...", "files_touched": [...]}}.

Verify for each of the four changes: tests pass with the patch applied; the demo behaves as required with and without the patch. Leave the worktree clean (git checkout -- .) at the end; the SEED directory is untracked and stays.

Report at the end, briefly: one line per change with its summary and the confirmation of the verifications. Also mention, separately, any behaviour of the UNCHANGED code that you noticed to contradict the property as stated (input and what happens) - do not fix it.

ALREADY PROPOSED (do not repeat these or close variants):
{prev}""")
