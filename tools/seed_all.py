#!/venv/bin/python
"""Regression over every stored seed: seed_all.py [--jobs N] [--only ID-prefix] [--tier quick|thorough]

For each /verif/seeded/<id>/ the patch is applied to a scratch copy of /repo's package (outside /repo
and /verif), the check of the property it breaks is run against the copy, and the copy is removed.
Updates meta.json's `detected_by`; prints the seeds whose patch no longer applies or that are missed.
"""
import concurrent.futures as cf
import glob, json, os, shutil, subprocess, sys, tempfile


def one(sd: str, tier: str):
    sid = os.path.basename(sd)
    meta = json.load(open(os.path.join(sd, "meta.json")))
    prop = meta["breaks_property"]
    d = tempfile.mkdtemp(prefix="seedall.")
    try:
        shutil.copytree("/repo/flamapy", os.path.join(d, "flamapy"))
        r = subprocess.run(["patch", "-s", "-p1", "-i", os.path.join(sd, "patch.diff")], cwd=d,
                           capture_output=True, text=True)
        if r.returncode != 0:
            return sid, prop, "patch-fails", ""
        env = dict(os.environ, VERIF_REPO=d, VERIF_EVIDENCE_DIR=os.path.join(d, "ev"))
        r = subprocess.run(["/venv/bin/python", "-m", "sa", prop, "--tier", tier], cwd="/verif", env=env,
                           capture_output=True, text=True)
        first = next((l.strip()[:200] for l in r.stdout.splitlines() if l.startswith(("  finding", "ANALYSIS-ERROR"))), "")
        if meta.get("kind") in ("refactor", "out-of-scope"):
            return sid, prop, {0: "silent", 1: "FALSE-ALARM", 2: "analysis-error"}.get(r.returncode, f"rc={r.returncode}"), first
        return sid, prop, {0: "missed", 1: "detected", 2: "analysis-error"}.get(r.returncode, f"rc={r.returncode}"), first
    finally:
        shutil.rmtree(d, ignore_errors=True)


def main():
    jobs = int(sys.argv[sys.argv.index("--jobs") + 1]) if "--jobs" in sys.argv else 16
    only = sys.argv[sys.argv.index("--only") + 1] if "--only" in sys.argv else ""
    tier = sys.argv[sys.argv.index("--tier") + 1] if "--tier" in sys.argv else "quick"
    seeds = [s for s in sorted(glob.glob("/verif/seeded/*")) if os.path.isdir(s) and os.path.basename(s).startswith(only)]
    bad = 0
    with cf.ThreadPoolExecutor(jobs) as ex:
        for sid, prop, verdict, first in ex.map(lambda s: one(s, tier), seeds):
            if verdict not in ("detected", "silent"):
                bad += 1
                print(f"{sid}: {verdict} {first}")
            mp = f"/verif/seeded/{sid}/meta.json"
            m = json.load(open(mp))
            m["detected_by"] = [prop] if verdict == "detected" else []
            m["last_verdict"] = verdict
            if verdict == "detected" and first.startswith("finding:"):
                m["caught_by_rule"] = first.split()[1] + " " + first.split()[2]
            json.dump(m, open(mp, "w"), indent=1)
    print(f"{len(seeds)} seeds (breaking changes must be detected, refactors must stay silent), {bad} not as expected")
    return 1 if bad else 0


if __name__ == "__main__":
    sys.exit(main())
