import sys, json, glob, re, os, collections
pid = sys.argv[1]
prop = open(f"/tmp/prop-{pid}.txt").read()
prev, files = [], collections.Counter()
for p in sorted(glob.glob(f"/verif/seeded/{pid}-*/meta.json")):
    m = json.load(open(p))
    kind = m.get("kind", "break")
    prev.append(f"- [{kind}] " + (m.get("summary") or "")[:260])
    for mm in re.finditer(r'^\+\+\+ b/(\S+)', open(os.path.join(os.path.dirname(p), "patch.diff")).read(), re.M):
        files[mm.group(1)] += 1
prev = "\n".join(prev)
most = ", ".join(f"{f} ({n}x)" for f, n in files.most_common(4))
wt = f"/tmp/wt4-{pid}"
print(f"""You are helping to evaluate a verification effort for a Python library by writing realistic source changes.

The library is flamapy/fm_metamodel (a feature-model metamodel with readers/writers for UVL, AFM, FeatureIDE, JSON, Glencoe, SPLOT, Clafer and tree-based analysis operations). You have your own scratch git worktree of it at {wt} (work ONLY inside that directory; never touch /repo or /verif, and do not read anything under /verif). Do NOT use `git stash`; use `git diff > file` and `git checkout -- .` / `git apply`.

The property under study:

{prop}

Earlier rounds already produced the changes listed at the end (breaking ones and behaviour-preserving refactors). They concentrated on: {most}. THIS ROUND LOOKS ELSEWHERE: prefer code that the property depends on INDIRECTLY - the shared model classes in models/feature_model.py (Feature, Relation, Attribute, Domain, Range, Cardinality, Constraint, FeatureModel: constructors, add_/get_/set_ methods, predicates, __str__/__eq__/__hash__/__lt__), module-level helper functions shared by several readers/writers or operations, base-class plumbing (__init__ of transformations and operations, get_result/execute/set_* methods), sibling implementations of the same interface, and any file of the anchors that the earlier changes did not touch. All changes are to the package under {wt}/flamapy/metamodels/fm_metamodel. Every change must compile/import and leave the existing test suite passing (144 tests):
    cd {wt} && PYTHONPATH={wt} /venv/bin/python -m pytest -q -p no:cacheprovider tests

PART 1 - TWO BREAKING CHANGES (A and B): each a small, subtle, realistic source change that BREAKS the property above for some input in its quantifier while the 144 tests still pass. They must use mechanisms and code sites different from each other and from everything in the list at the end. Good candidates this round: a change in a shared helper or model method made "for" another caller; a new default value; a changed return type that most callers tolerate (list vs generator vs tuple vs set; str vs int; None vs empty); an added normalisation (strip, lower, sort, dedupe, rounding) in a constructor or getter; a boundary; an equality/hash change; an exception swallowed or converted; laziness (a generator consumed twice); object sharing between model instances; in-place update of an argument; order of evaluation.
For each X in (A, B) deliver under {wt}/SEED/X/: patch.diff (`git diff` of only that change against HEAD); demo.py - a standalone program using the public API that exits 0 printing PASS on the UNCHANGED worktree and exits 1 printing FAIL (saying what went wrong) with the patch applied, demonstrating a violation of the property AS STATED (run as `PYTHONPATH={wt} /venv/bin/python SEED/X/demo.py` from {wt}; do not hard-code {wt}); meta.json {{"property": "{pid}", "kind": "break", "summary": "...", "needs_to_manifest": "...", "files_touched": [...]}}.

PART 2 - TWO BEHAVIOUR-PRESERVING REFACTORS (R1 and R2) of code the property is about or depends on, again preferring the places named above over the already-refactored ones, WITHOUT changing observable behaviour for ANY input (same results, same order where observable, same exception types, no new mutation of inputs, no new shared state). Make them substantial and idiomatic, and use Python facilities the earlier refactors did not: e.g. @dataclass or NamedTuple helper records, @property / @staticmethod / @classmethod conversions, @functools.singledispatch or singledispatchmethod, functools.cached-free helpers, contextlib (suppress, contextmanager), io.StringIO accumulation, str.translate / str.maketrans / str.partition / textwrap.indent, string.Template or format specs, enum lookups by value, dict/set operators (| & -), zip / enumerate / reversed / sorted(key=...) / min/max(key=...), itertools (chain, groupby, accumulate, pairwise, islice, takewhile), generators with yield from, nested functions and closures with nonlocal, star-unpacking, conditional expressions, walrus, try/except/else/finally restructuring, early-return guard clauses, sentinel objects, typing.cast. Be careful that each REALLY preserves behaviour.
For each X in (R1, R2) deliver under {wt}/SEED/X/: patch.diff; demo.py - a standalone DIFFERENTIAL program that exercises the refactored code through the public API on a good spread of inputs (including the corner cases in the property's quantifier) and compares against EXPECTED VALUES recorded from the UNCHANGED worktree and embedded in demo.py; it exits 0 printing PASS both unchanged and patched (do not hard-code {wt}); meta.json {{"property": "{pid}", "kind": "refactor", "summary": "...", "files_touched": [...]}}.

Verify for each of the four changes: tests pass with the patch applied; the demo behaves as required with and without the patch. Leave the worktree clean (git checkout -- .) at the end; the SEED directory is untracked and stays.

Report at the end, briefly: one line per change with its summary and the confirmation of the verifications. Also mention, separately, any behaviour of the UNCHANGED code that you noticed to contradict the property as stated (input and what happens) - do not fix it.

ALREADY PROPOSED (do not repeat these or close variants):
{prev}""")
