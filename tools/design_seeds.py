#!/venv/bin/python
"""Regenerate the table of DESIGN.md §9 (between the SEEDS markers) from /verif/seeded/*/meta.json."""
import glob, json, os, re
rows = []
for meta in sorted(glob.glob("/verif/seeded/*/meta.json")):
    m = json.load(open(meta))
    sid = os.path.basename(os.path.dirname(meta))
    kind = m.get("kind", "break")
    summ = re.sub(r"\s+", " ", (m.get("summary") or "")).replace("|", "/")[:150]
    if kind in ("refactor", "out-of-scope"):
        rows.append(f"| {sid} | {kind} | {summ} | {m.get('last_verdict', 'silent')} | {m.get('first_detected', '')} |")
    else:
        rows.append(f"| {sid} | break | {summ} | {m.get('caught_by_rule', ', '.join(m.get('detected_by', [])) or '—')} | {m.get('first_detected', '')} |")
table = ["| id | kind | change | caught by (rule [key]) / verdict | history |", "|---|---|---|---|---|"] + rows
p = "/verif/DESIGN.md"
s = open(p).read()
a, b = "<!-- SEEDS-BEGIN -->", "<!-- SEEDS-END -->"
s = s[:s.index(a) + len(a)] + "\n" + "\n".join(table) + "\n" + s[s.index(b):]
open(p, "w").write(s)
print(len(rows), "rows")
