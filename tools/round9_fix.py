#!/venv/bin/python
"""Record what happened to each round-9 break when it was delivered (first evaluation, before any cure of that round)."""
import json, os
DET = "C16-M2 C16-P2 C03-M2 C14-M2 C07-P2 C08-M2 C11-P2 C17-M2 C19-P2 C02-M2 C04-M2 C06-M2 C10-M2 C10-P2 C01-P2 C13-P2 C12-P2 C18-M2 C18-P2".split()
EXIT2 = {"C03-P2": "exit 2 as delivered (a memo field of Relation missing on hand-made abstract relations) - abstract relations go through "
                   "Relation.__init__ now; reported by C03-FRESH relation-bounds-assigned against an independently built tree",
         "C14-P2": "exit 2 as delivered (weakref.WeakKeyDictionary outside the fragment) - weak containers supported; reported by the "
                   "edited-in-place evaluation",
         "C15-P2": "exit 2 as delivered (id() of None; a memo attribute read on a model object regarded as incomplete) - constructed "
                   "objects are complete now; reported by the operation sequences"}
for d in sorted(os.listdir("/verif/seeded")):
    if not (d.endswith("-M2") or d.endswith("-P2")):
        continue
    mp = f"/verif/seeded/{d}/meta.json"
    m = json.load(open(mp))
    m["round"] = 9
    if d in DET:
        m["first_detected"] = "detected as delivered"
    elif d in EXIT2:
        m["first_detected"] = EXIT2[d]
    else:
        m["first_detected"] = "missed as delivered" + ("" if m.get("last_verdict") != "detected" else
                                                      " - reported after the round-9 generalisations (DESIGN §9)")
    json.dump(m, open(mp, "w"), indent=1)
    print(d, m.get("last_verdict"), "|", m["first_detected"][:60])
