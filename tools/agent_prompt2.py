import sys, json, glob
pid=sys.argv[1]
prop=open(f"/tmp/prop-{pid}.txt").read()
prev=[]
for p in sorted(glob.glob(f"/verif/seeded/{pid}-*/meta.json")):
    m=json.load(open(p)); prev.append("- "+(m.get("summary") or "")[:400])
prev="\n".join(prev)
base=open(f"/tmp/agent-{pid}.txt").read() if False else None
print(f"""You are helping to evaluate a verification effort by seeding realistic defects into a Python library.

The library is flamapy/fm_metamodel (a feature-model metamodel with readers/writers for UVL, AFM, FeatureIDE, JSON, Glencoe, SPLOT, Clafer and tree-based analysis operations). You have your own scratch git worktree of it at /tmp/wt2-{pid} (work ONLY inside that directory; never touch /repo or /verif, and do not read anything under /verif). Do NOT use `git stash` (stashes are shared between worktrees); use `git diff > file` and `git checkout -- .` / `git apply`.

The property under study:

{prop}

Other people have ALREADY proposed these changes for this property - do NOT repeat them or close variants of them (same code site, or same idea at a sibling site):
{prev}

YOUR TASK: produce TWO independent, different source changes (call them A and B) to the package under /tmp/wt2-{pid}/flamapy/metamodels/fm_metamodel, each of which
  (1) BREAKS the property above for some input in its quantifier,
  (2) still compiles/imports, and
  (3) leaves the existing test suite passing (144 tests). Run it with:
        cd /tmp/wt2-{pid} && PYTHONPATH=/tmp/wt2-{pid} /venv/bin/python -m pytest -q -p no:cacheprovider tests
      (PYTHONPATH makes Python use the worktree's copy of the package instead of the installed one.)
Aim for SUBTLE, realistic changes that a reviewer could wave through: an 'optimisation', a refactor that changes behaviour only in a corner, a changed default, a helper shared by two call sites changed for the benefit of one of them, two cooperating edits that each look fine alone, a fix for one input class that breaks another, an early exit, a boundary (<= vs <), handling of an unusual but legal input (large/odd cardinalities such as [0..0], [n..n], [a..*]; names with unusual characters; deep or oddly nested constraints; several relations under one parent; abstract/typed features; empty collections; the root-only model), or dependence on history (second call, second model, another object used before). Look at parts of the code the earlier proposals did not touch. Each change should be small. A and B must break the property in DIFFERENT ways.

For EACH change X in (A, B) deliver, under /tmp/wt2-{pid}/SEED/X/:
  - patch.diff : `git diff` of the change against the worktree's HEAD (only that change)
  - demo.py    : a small standalone program (run as `PYTHONPATH=/tmp/wt2-{pid} /venv/bin/python SEED/X/demo.py` from /tmp/wt2-{pid}) that uses the library's public API, exits 0 and prints PASS on the UNCHANGED worktree, and exits 1 and prints FAIL (with what went wrong) when patch.diff is applied. It must demonstrate a violation of the property as stated. Do not hard-code /tmp/wt2-{pid} inside demo.py (it will be re-run from a copy of the tree).
  - meta.json  : {{"property": "{pid}", "summary": "...", "needs_to_manifest": "...", "files_touched": [...]}}
Verify for each change: tests pass with the patch applied; demo fails with the patch; demo passes without it. Leave the worktree clean (git checkout -- .) at the end; the SEED directory is untracked and stays.

Report at the end, briefly: for A and B the summary, and confirmation of the three verifications.""")
