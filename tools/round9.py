#!/venv/bin/python
"""Evaluate and store the round-9 deliveries of one property (a second sample of the round-8 kinds, delivered after the
round-8 cures were in place): round9.py Cxx [--refactor-too]
A -> <prop>-M2, B -> <prop>-P2 (own check), R1 -> <prop>-R10 (all 20 checks). The verdict of this first evaluation is
recorded as `first_detected` (as delivered)."""
import json, os, re, subprocess, sys
import concurrent.futures as cf

pid = sys.argv[1]
wt = f"/tmp/wt9-{pid}"
jobs = [("A", f"{pid}-M2", []), ("B", f"{pid}-P2", [])]
if "--refactor-too" in sys.argv:
    jobs.append(("R1", f"{pid}-R10", ["--refactor", "--all"]))


def one(job):
    sub, sid, extra = job
    d = os.path.join(wt, "SEED", sub)
    if not os.path.exists(os.path.join(d, "patch.diff")):
        return sid, "missing"
    r = subprocess.run(["/venv/bin/python", "/verif/tools/seed_eval.py", d, pid] + extra + ["--keep", sid],
                       capture_output=True, text=True, cwd="/verif")
    mp = f"/verif/seeded/{sid}/meta.json"
    if not os.path.exists(mp):
        return sid, "NOT CONFIRMED " + r.stdout[-400:].replace("\n", " ")
    m = json.load(open(mp))
    m["round"] = 9
    if extra:
        ns = [p for p, rc in m.get("check_exit_codes", {}).items() if rc != 0]
        m["last_verdict"] = "silent" if not ns else "not silent: " + ", ".join(f"{p}={m['check_exit_codes'][p]}" for p in ns)
        m["first_detected"] = "silent on all 20 checks as delivered" if not ns else \
            "not silent as delivered: " + "; ".join((m.get("findings") or [""])[:2])[:300]
    else:
        det = pid in m.get("detected_by", [])
        rc = m.get("check_exit_codes", {}).get(pid)
        m["kind"] = "break"
        m["last_verdict"] = "detected" if det else ("analysis-broken" if rc == 2 else "missed")
        f0 = (m.get("findings") or [""])[0]
        mm = re.match(r"finding: (\S+ \[[^\]]*\])", f0)
        m["caught_by_rule"] = mm.group(1) if (mm and det) else "—"
        m["first_detected"] = "detected as delivered" if det else ("exit 2 as delivered: " + f0[:200] if rc == 2 else "missed as delivered")
    json.dump(m, open(mp, "w"), indent=1)
    return sid, m["last_verdict"] + " " + m.get("caught_by_rule", "")


with cf.ThreadPoolExecutor(3) as ex:
    for sid, res in ex.map(one, jobs):
        print(sid, res[:300], flush=True)
