#!/venv/bin/python
"""Conformance of the evaluator with CPython: evalconf.py [--only NAME]

Copies /repo's package into a scratch root (outside /repo and /verif), adds selftest/evalcases.py to it as a module
of the package, then runs every `case_*` function twice - by CPython and by the evaluator from the module's
source - and compares the outcomes (value after normalisation, or the exception type). Exit 1 on a difference.
A case the evaluator declines (AnalysisError) is listed as `outside fragment`, not as a difference.
"""
import importlib.util
import os
import shutil
import sys
import tempfile

sys.path.insert(0, os.path.dirname(os.path.dirname(os.path.abspath(__file__))))


def norm(v):
    if hasattr(v, "__next__"):
        return ["<iterator>"]
    if isinstance(v, (list, tuple)):
        t = "tuple" if isinstance(v, tuple) else "list"
        return [t] + [norm(x) for x in v]
    if isinstance(v, dict):
        return ["dict"] + [[norm(k), norm(x)] for k, x in v.items()]
    if isinstance(v, (set, frozenset)):
        return ["set"] + sorted(repr(norm(x)) for x in v)
    if isinstance(v, (str, int, float, bool)) or v is None:
        return [type(v).__name__, v]
    return ["obj", type(v).__name__ if not hasattr(v, "_cls") else v._cls]


def main():
    only = sys.argv[sys.argv.index("--only") + 1] if "--only" in sys.argv else None
    tmp = tempfile.mkdtemp(prefix="evalconf.")
    try:
        shutil.copytree("/repo/flamapy", os.path.join(tmp, "flamapy"), ignore=shutil.ignore_patterns("__pycache__"))
        dst = os.path.join(tmp, "flamapy/metamodels/fm_metamodel/operations/evalcases.py")
        shutil.copy(os.path.join(os.path.dirname(os.path.dirname(os.path.abspath(__file__))), "selftest/evalcases.py"), dst)
        os.environ["VERIF_REPO"] = tmp
        from sa.absint import AbsMutation, AbsRaise, Interp, reset_global_state
        from sa.core import AnalysisError
        from sa.pm import ProgramModel
        pm = ProgramModel(tmp)
        spec = importlib.util.spec_from_file_location("evalcases_real", dst)
        real = importlib.util.module_from_spec(spec)
        sys.modules["evalcases_real"] = real
        spec.loader.exec_module(real)
        names = sorted(n for n in dir(real) if n.startswith("case_") and (only is None or only in n))
        bad = outside = 0
        for n in names:
            try:
                want = ("value", norm(getattr(real, n)()))
            except Exception as exc:  # noqa: BLE001
                want = ("raise", type(exc).__name__)
            reset_global_state()
            try:
                fi = pm.func(n, "evalcases")
                got = ("value", norm(Interp(pm, max_depth=40).call(fi, [])))
            except AbsRaise as exc:
                import re
                mk = re.match(r"[A-Za-z_][A-Za-z0-9_.]*", exc.what.strip())
                got = ("raise", (mk.group(0) if mk else exc.what).split(".")[-1])
            except AbsMutation as exc:
                got = ("mutation", exc.what)
            except AnalysisError as exc:
                got = ("outside", f"{exc.rule} {exc.reason}")
            except Exception as exc:  # noqa: BLE001 - the evaluator itself fails: the checks end as analysis-broken (exit 2)
                got = ("outside", f"CRASH {type(exc).__name__}: {exc}")
            if got[0] == "outside":
                outside += 1
                print(f"outside fragment  {n}: {got[1][:150]}")
            elif got != want:
                bad += 1
                print(f"DIFFERS           {n}:\n    CPython   {str(want)[:600]}\n    evaluator {str(got)[:600]}")
            else:
                print(f"ok                {n}")
        print(f"{len(names)} cases, {bad} differ, {outside} outside the fragment")
        return 1 if bad else 0
    finally:
        shutil.rmtree(tmp, ignore_errors=True)


if __name__ == "__main__":
    sys.exit(main())
