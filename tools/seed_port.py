#!/venv/bin/python
"""Re-base stored seed patches after a `fix:` commit touched their lines: seed_port.py ID [ID ...]

For each file of the patch: base = the file at /repo HEAD~1 (every stored patch applies there), theirs = base with
the patch applied, ours = the file at HEAD; `git merge-file` merges them. A conflict means the patch rewrote lines
the fix rewrote: for code the fix wins (that part of the patch is dropped - recorded in meta.json), for import
lines both sides are kept. Works on scratch copies outside /repo and /verif; never touches /repo.
"""
import json, os, re, shutil, subprocess, sys, tempfile


def resolve(text: str) -> tuple[str, int]:
    out, mode, ours, theirs, dropped = [], None, [], [], 0
    for ln in text.split("\n"):
        if ln.startswith("<<<<<<< "):
            mode, ours, theirs = "o", [], []
        elif ln.startswith("=======") and mode == "o":
            mode = "t"
        elif ln.startswith(">>>>>>> ") and mode == "t":
            if any(l.startswith(("import ", "from ")) for l in ours + theirs) and \
                    all(l.startswith(("import ", "from ", "#")) or not l.strip() for l in ours + theirs):
                seen = []
                for l in ours + theirs:
                    if l not in seen:
                        seen.append(l)
                out.extend(seen)
            else:
                out.extend(ours)
                dropped += 1
            mode = None
        elif mode == "o":
            ours.append(ln)
        elif mode == "t":
            theirs.append(ln)
        else:
            out.append(ln)
    return "\n".join(out), dropped


def port(sid: str) -> None:
    sd = f"/verif/seeded/{sid}"
    patch = os.path.join(sd, "patch.diff")
    files = re.findall(r"^\+\+\+ b/(\S+)", open(patch).read(), re.M)
    tmp = tempfile.mkdtemp(prefix="seedport.")
    try:
        base = os.path.join(tmp, "base")
        subprocess.run(["git", "clone", "-q", "/repo", base], check=True)
        rev = None
        for k in range(1, 9):            # the most recent commit the stored patch still applies to
            subprocess.run(["git", "checkout", "-q", f"origin/HEAD~{k}" if False else f"HEAD~{k}" if k == 1 else "HEAD~1"], cwd=base, check=True)
            r = subprocess.run(["git", "apply", patch], cwd=base, capture_output=True, text=True)
            if r.returncode == 0:
                rev = subprocess.run(["git", "rev-parse", "HEAD"], cwd=base, capture_output=True, text=True).stdout.strip()
                break
        if rev is None:
            print(sid, "does not apply to any of the last 8 commits:", r.stderr[:200]); return
        new = os.path.join(tmp, "new")
        subprocess.run(["git", "clone", "-q", "/repo", new], check=True)
        total = 0
        for f in files:
            theirs = os.path.join(base, f)
            basef = os.path.join(tmp, "b.py")
            with open(basef, "w") as fh:
                fh.write(subprocess.run(["git", "show", f"{rev}:{f}"], cwd="/repo", capture_output=True, text=True).stdout)
            ours = os.path.join(new, f)
            subprocess.run(["git", "merge-file", "-q", ours, basef, theirs])
            txt, dropped = resolve(open(ours).read())
            total += dropped
            open(ours, "w").write(txt)
            subprocess.run(["/venv/bin/python", "-c", f"import ast; ast.parse(open({ours!r}).read())"], check=True)
        diff = subprocess.run(["git", "diff"], cwd=new, capture_output=True, text=True).stdout
        open(patch, "w").write(diff)
        mp = os.path.join(sd, "meta.json")
        m = json.load(open(mp))
        head = subprocess.run(["git", "log", "-1", "--format=%h"], cwd="/repo", capture_output=True, text=True).stdout.strip()
        note = f"re-based on fix {head} by 3-way merge" + (f" ({total} hunk(s) that rewrote the lines the fix rewrote were dropped)" if total else "")
        m["ported"] = (m.get("ported", "") + "; " if m.get("ported") else "") + note
        json.dump(m, open(mp, "w"), indent=1)
        print(sid, note, f"({len(diff)} bytes)")
    finally:
        shutil.rmtree(tmp, ignore_errors=True)


if __name__ == "__main__":
    for s in sys.argv[1:]:
        port(s)
