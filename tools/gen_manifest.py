#!/venv/bin/python
"""Generate /verif/MANIFEST.json from the table below (kept in one place so it stays valid)."""
import json, os, sys
sys.path.insert(0, os.path.dirname(os.path.dirname(os.path.abspath(__file__))))
from sa.registry import CHECKS, NOT_BUILT_REASON  # noqa: E402

BASE_CMD = ("cd /repo && /venv/bin/python -m pytest -ra -q -p no:cacheprovider --timeout=900 "
            "--continue-on-collection-errors")
props = [json.loads(l)["id"] for l in open("/verif/properties.jsonl")]
checks, na = [], []
for pid in props:
    c = CHECKS.get(pid)
    if c is None:
        na.append({"property_id": pid, "reason": NOT_BUILT_REASON})
        continue
    checks.append({
        "property_id": pid,
        "quick_cmd": f"/venv/bin/python -m sa {pid} --tier quick",
        "thorough_cmd": f"/venv/bin/python -m sa {pid} --tier thorough",
        "evidence_file": f"/verif/evidence/{pid}.json",
        "replay_cmd_template": f"/venv/bin/python -m sa {pid} --tier quick --replay {{path}}",
        "engine": "sa",
        "level_claimed": {"category": "other", "text": c["text"], "design_ref": c["design_ref"]},
        "level_note": c["note"],
        "technique": c["technique"],
    })
m = {
    "version": 1,
    "setup_cmd": "/venv/bin/python -c \"import ast, sys; sys.path.insert(0, '/verif'); import sa.core, sa.pm, sa.absint\"",
    "hooks": {"guard": "FLAMAPY_FM_METAMODEL_VERIF", "enable": "not used: the checks read source text only, no hook or instrumentation exists in /repo",
              "baseline_off_cmd": BASE_CMD, "source_commits": [], "add_only": True},
    "engines": [{"name": "sa", "path": "/verif/sa", "serves_properties": [c["property_id"] for c in checks],
                 "kind_free_text": "repository-specific static analysis on Python ast + program model (class table, call resolution), finite-abstraction formula evaluation, decision tables, def-use/effect/definite-assignment analyses; never imports or executes the package"}],
    "checks": checks,
    "not_applicable": na,
    "notes": "All checks decide structural clauses of their property from /repo's current source (re-parsed on every run); exit 0/1/2 = ok / VIOLATION / ANALYSIS-ERROR. Genuine defects recorded in /verif/known_findings.json. See DESIGN.md.",
}
json.dump(m, open("/verif/MANIFEST.json", "w"), indent=1)
print("checks:", len(checks), "not_applicable:", len(na))
