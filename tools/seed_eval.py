#!/venv/bin/python
"""Confirm and evaluate a seeded change: seed_eval.py SEEDDIR PROP [--keep ID]

SEEDDIR contains patch.diff, demo.py, meta.json. Confirms on scratch copies (outside /repo, /verif):
  demo passes without the patch, fails with it; the 144 tests pass with it;
then runs the property's check (and every other check with --all) against the patched copy.
With --keep ID the seed is stored as /verif/seeded/ID/ with the outcome recorded in meta.json.
"""
import json, os, shutil, subprocess, sys
sys.path.insert(0, os.path.dirname(os.path.dirname(os.path.abspath(__file__))))
from tools.mut import make_copy, run_checks, run_tests  # noqa: E402

ALL = [f"C{i:02d}" for i in range(1, 21)]


def run_demo(tmp, demo):
    env = dict(os.environ, PYTHONPATH=tmp)
    r = subprocess.run(["/venv/bin/python", demo], cwd=tmp, env=env, capture_output=True, text=True, timeout=300)
    import hashlib
    import re as _re
    full = (r.stdout + r.stderr).replace(tmp, "<ROOT>")       # the scratch copies live under different directories
    full = _re.sub(r"(?<![A-Za-z0-9])(tmp|<tmp>-)[a-z0-9_]{8}(?![a-z0-9_])", "<TMP>", full)   # names tempfile made up
    return r.returncode, full.strip().splitlines()[-3:], hashlib.sha256(full.encode()).hexdigest()[:16], ("DIFFERS" in full)


def main():
    seed, prop = sys.argv[1], sys.argv[2]
    keep = sys.argv[sys.argv.index("--keep") + 1] if "--keep" in sys.argv else None
    props = ALL if "--all" in sys.argv else [prop]
    patch = os.path.join(seed, "patch.diff")
    demo_src = os.path.join(seed, "demo.py")
    out = {"property": prop}
    clean = make_copy(True)
    patched = make_copy(True)
    try:
        for d in (clean, patched):
            os.makedirs(os.path.join(d, "SEED", "X"))           # same place relative to the tree as delivered
            shutil.copy(demo_src, os.path.join(d, "SEED", "X", "demo.py"))
        r = subprocess.run(["patch", "-p1", "-i", os.path.abspath(patch)], cwd=patched, capture_output=True, text=True)
        if r.returncode != 0:
            print("PATCH DOES NOT APPLY", r.stdout[-300:], r.stderr[-300:]); return 3
        out["demo_clean"] = run_demo(clean, "SEED/X/demo.py")
        out["demo_patched"] = run_demo(patched, "SEED/X/demo.py")
        out["tests_patched"] = run_tests(patched)
        res = run_checks(patched, props)
        out["checks"] = {p: rc for p, (rc, _) in res.items()}
        out["findings"] = [l.strip()[:260] for p, (rc, o) in res.items() for l in o.splitlines()
                           if l.startswith(("  finding", "ANALYSIS-ERROR"))][:8]
        refactor = "--refactor" in sys.argv or "--outofscope" in sys.argv
        if "--outofscope" in sys.argv:
            # behaviour changes only outside the property: the demo's in-scope property check passes both ways, and it
            # prints DIFFERS lines (out-of-scope differences) only with the patch
            confirmed = out["demo_clean"][0] == 0 and out["demo_patched"][0] == 0 and not out["demo_clean"][3] \
                and out["demo_patched"][3] and out["tests_patched"][0] == 0
        elif refactor:
            # behaviour-preserving: the differential demo gives the same output with and without the patch. (Its
            # recorded expectations may predate a later fix: of the repo: then it fails identically on both.)
            same = out["demo_clean"][0] == out["demo_patched"][0] and out["demo_clean"][2] == out["demo_patched"][2]
            out["demo_expectations_stale"] = same and out["demo_clean"][0] != 0
            confirmed = same and out["tests_patched"][0] == 0
        else:
            confirmed = out["demo_clean"][0] == 0 and out["demo_patched"][0] != 0 and out["tests_patched"][0] == 0
        out["confirmed"] = confirmed
        out["detected_by"] = [p for p, rc in out["checks"].items() if rc == 1]
        out["not_silent"] = [p for p, rc in out["checks"].items() if rc != 0]
        print(json.dumps(out, indent=1))
        if keep and confirmed:
            dst = os.path.join("/verif/seeded", keep)
            os.makedirs(dst, exist_ok=True)
            shutil.copy(patch, os.path.join(dst, "patch.diff"))
            shutil.copy(demo_src, os.path.join(dst, "demo.py"))
            meta = {}
            mp = os.path.join(seed, "meta.json")
            if os.path.exists(mp):
                try:
                    meta = json.load(open(mp))
                except Exception:
                    meta = {"raw": open(mp).read()[:500]}
            if refactor:
                meta.update({"kind": "out-of-scope" if "--outofscope" in sys.argv else "refactor", "expected": "silent",
                             "about_property": prop})
            meta.update({"breaks_property": prop, "origin": "independent sub-agent given only the property text",
                         "confirmed": {"demo_on_unchanged_tree": "PASS (exit 0)", "demo_with_patch": ("PASS (exit 0)" if refactor else f"FAIL (exit {out['demo_patched'][0]})"),
                                       "tests_with_patch": out["tests_patched"][1]},
                         "what_i_ran": "tools/seed_eval.py: scratch copies under $TMPDIR; patch -p1; demo.py with PYTHONPATH=<copy>; pytest tests; /venv/bin/python -m sa <prop> with VERIF_REPO=<copy>",
                         "check_exit_codes": out["checks"], "detected_by": out["detected_by"], "findings": out["findings"][:4]})
            json.dump(meta, open(os.path.join(dst, "meta.json"), "w"), indent=1)
            print("kept as", dst)
        return 0
    finally:
        shutil.rmtree(clean, ignore_errors=True)
        shutil.rmtree(patched, ignore_errors=True)


if __name__ == "__main__":
    sys.exit(main())
