import sys
pid=sys.argv[1]
prop=open(f"/tmp/prop-{pid}.txt").read()
print(f"""You are helping to evaluate a verification effort by seeding realistic defects into a Python library.

The library is flamapy/fm_metamodel (a feature-model metamodel with readers/writers for UVL, AFM, FeatureIDE, JSON, Glencoe, SPLOT, Clafer and tree-based analysis operations). You have your own scratch git worktree of it at /tmp/wt-{pid} (work ONLY inside that directory; never touch /repo or /verif, and do not read anything under /verif).

The property under study:

{prop}

YOUR TASK: produce TWO independent, different source changes (call them A and B) to the package under /tmp/wt-{pid}/flamapy/metamodels/fm_metamodel, each of which
  (1) BREAKS the property above for some input in its quantifier,
  (2) still compiles/imports, and
  (3) leaves the existing test suite passing (144 tests). Run it with:
        cd /tmp/wt-{pid} && PYTHONPATH=/tmp/wt-{pid} /venv/bin/python -m pytest -q -p no:cacheprovider tests
      (PYTHONPATH makes Python use the worktree's copy of the package instead of the installed one; check with
       PYTHONPATH=/tmp/wt-{pid} /venv/bin/python -c "import flamapy.metamodels.fm_metamodel as m; print(m.__path__)").
Prefer changes that look like plausible maintenance edits or refactors (an 'optimisation', a 'simplification', a changed default, an off-by-one, a swapped argument, a lost case in a dispatch, a cache, an in-place sort...), and that need something SPECIFIC to manifest - an unusual input (a particular relation cardinality, a name with special characters, a nested constraint shape, several relations under one parent, an abstract feature, the root-only model...), a multi-step sequence of operations (second call on the same object, second write/read cycle), or two cooperating sites that each look fine alone - not ones that ordinary use would expose at once. Each change should be small (a few lines). A and B must break the property in DIFFERENT ways (different code sites / different clauses of the property).

For EACH change X in (A, B) deliver, under /tmp/wt-{pid}/SEED/X/:
  - patch.diff : `git diff` of the change against the worktree's HEAD (only that change; make sure the worktree is reset with `git checkout -- .` before you start the next one)
  - demo.py    : a small standalone program (run as `PYTHONPATH=/tmp/wt-{pid} /venv/bin/python SEED/X/demo.py` from /tmp/wt-{pid}) that uses the library's public API, exits 0 and prints PASS on the UNCHANGED worktree, and exits 1 and prints FAIL (with what went wrong) when patch.diff is applied. It must demonstrate a violation of the property as stated (not just any behavioural difference).
  - meta.json  : {{"property": "{pid}", "summary": "...", "needs_to_manifest": "...", "files_touched": [...]}}
Verify for each change: tests pass with the patch applied; demo fails with the patch; demo passes without it. Leave the worktree clean (git checkout -- .) at the end; the SEED directory is untracked and stays.

Report at the end, briefly: for A and B the summary, and confirmation of the three verifications.""")
