import sys, json, glob, re, os
pid = sys.argv[1]
prop = open(f"/tmp/prop-{pid}.txt").read()
prev = []
for p in sorted(glob.glob(f"/verif/seeded/{pid}-*/meta.json")):
    m = json.load(open(p))
    prev.append(f"- [{m.get('kind', 'break')}] " + (m.get("summary") or "")[:220])
prev = "\n".join(prev)
wt = f"/tmp/wt6-{pid}"
print(f"""You are helping to evaluate a verification effort for a Python library by writing realistic source changes.

The library is flamapy/fm_metamodel (a feature-model metamodel with readers/writers for UVL, AFM, FeatureIDE, JSON, Glencoe, SPLOT, Clafer and tree-based analysis operations). You have your own scratch git worktree of it at {wt} (work ONLY inside that directory; never touch /repo or /verif, and do not read anything under /verif). Do NOT use `git stash`; use `git diff > file` and `git checkout -- .` / `git apply`.

The property under study:

{prop}

All changes are to the package under {wt}/flamapy/metamodels/fm_metamodel. Every change must compile/import and leave the existing test suite passing (144 tests):
    cd {wt} && PYTHONPATH={wt} /venv/bin/python -m pytest -q -p no:cacheprovider tests

PART 1 - TWO BREAKING CHANGES (A and B): each a small, subtle, realistic source change that BREAKS the property above for some input in its quantifier while the 144 tests still pass. The list at the end shows what earlier rounds already proposed (about fifteen per property): do NOT repeat those or close variants.
 * Change A must be SIZE- or SHAPE-TRIGGERED: the code stays right for every small, simple input and goes wrong only for inputs that are a bit larger or oddly shaped, but still plainly inside the property's quantifier - e.g. five or more siblings, four or more levels, several groups under one parent, a group inside a group inside a group, four or more constraints, a constraint with five or more operands or nesting depth four, cardinality bounds of 4 or more, the tenth or later element of something, numbers with many digits or exponents, names longer than 30 characters, many attributes on one feature, a feature used in many constraints. Typical mechanisms: a threshold or fast path, a fixed-size buffer or slice, a recursion/iteration cap, pagination, string formatting widths, sorting that becomes lexicographic at 10 elements, quadratic shortcuts, `zip` truncation, a cache with a maximum size, hashing collisions, chunked processing.
 * Change B must be realised through a PYTHON LANGUAGE MECHANISM rather than a plain wrong expression: for instance a descriptor / property / `__getattr__` / `__setattr__` hook, `__init_subclass__` or a class decorator or metaclass, `__slots__`, `functools.cached_property` / `cache`, a module-level registry or `weakref` table, a mutable default argument, a closure capturing a loop variable, a generator that is kept and resumed, overloaded `__eq__` / `__hash__` / `__bool__` / `__len__` / `__iter__` / `__contains__` / `__lt__`, a context manager, `copy`/`deepcopy` hooks, `__post_init__`, class attributes shared between instances, name mangling, import-time patching inside the package, `__del__`, `sys.intern`, identity (`is`) of small ints or strings. It must look like something a maintainer could write in good faith (an optimisation, a convenience, a tidy-up).
For each X in (A, B) deliver under {wt}/SEED/X/: patch.diff (`git diff` of only that change against HEAD); demo.py - standalone, public API, exits 0 printing PASS on the UNCHANGED worktree and exits 1 printing FAIL (saying what went wrong) with the patch applied, demonstrating a violation of the property AS STATED (run as `PYTHONPATH={wt} /venv/bin/python SEED/X/demo.py` from {wt}; do not hard-code {wt}); meta.json {{"property": "{pid}", "kind": "break", "summary": "...", "needs_to_manifest": "...", "files_touched": [...]}}.

PART 2 - TWO BEHAVIOUR-PRESERVING REFACTORS (R1 and R2): rewrites of code the property is about that change NOTHING observable for any input (same results, same exceptions, same effects on the arguments, same files written), yet look very different: use the Python mechanisms listed under change B (descriptors, properties, `__getattr__`, class decorators, `__init_subclass__`, dataclasses with `__post_init__`, `functools.cached_property` on objects that never change afterwards, `singledispatch`, generators with `yield from`, `contextlib` managers, `itertools`/`functools`/`operator` pipelines, `enum` methods, `typing.NamedTuple` frames, nested closures, `match` statements, iterator protocols on a helper class, a small visitor class hierarchy). Each must be at least 25 changed lines and a realistic refactor that a reviewer would accept as behaviour-preserving.
For each X in (R1, R2) deliver under {wt}/SEED/X/: patch.diff; demo.py - standalone; it checks the property as stated on a good spread of in-scope inputs AND prints a digest of results (values, orders, exception types) for a spread of inputs including ill-formed ones; it exits 0 printing PASS both on the unchanged and on the patched worktree and its full output must be byte-identical on both; meta.json {{"property": "{pid}", "kind": "refactor", "summary": "...", "why_behaviour_is_unchanged": "...", "files_touched": [...]}}.

Verify for each of the four changes: tests pass with the patch applied; the demo behaves as required with and without the patch (for R1/R2: `diff` of the two outputs is empty). Leave the worktree clean (git checkout -- .) at the end; the SEED directory is untracked and stays.

Report at the end, briefly: one line per change with its summary and the confirmation of the verifications. Also mention, separately, any behaviour of the UNCHANGED code that you noticed to contradict the property as stated (input and what happens) - do not fix it.

ALREADY PROPOSED (do not repeat these or close variants):
{prev}""")
