import sys, json, glob, re, os
pid = sys.argv[1]
prop = open(f"/tmp/prop-{pid}.txt").read()
prev = []
for p in sorted(glob.glob(f"/verif/seeded/{pid}-*/meta.json")):
    m = json.load(open(p))
    prev.append(f"- [{m.get('kind', 'break')}] " + (m.get("summary") or "")[:220])
prev = "\n".join(prev)
wt = f"/tmp/wt7-{pid}"
print(f"""You are helping to evaluate a verification effort for a Python library by writing realistic source changes.

The library is flamapy/fm_metamodel (a feature-model metamodel with readers/writers for UVL, AFM, FeatureIDE, JSON, Glencoe, SPLOT, Clafer and tree-based analysis operations). You have your own scratch git worktree of it at {wt} (work ONLY inside that directory; never touch /repo or /verif, and do not read anything under /verif). Do NOT use `git stash`; use `git diff > file` and `git checkout -- .` / `git apply`.

The property under study:

{prop}

All changes are to the package under {wt}/flamapy/metamodels/fm_metamodel. Every change must compile/import and leave the existing test suite passing (144 tests):
    cd {wt} && PYTHONPATH={wt} /venv/bin/python -m pytest -q -p no:cacheprovider tests

PART 1 - ONE BREAKING CHANGE (A): a realistic source change that BREAKS the property above for some input in its quantifier while the 144 tests still pass, made of TWO (or more) edits in DIFFERENT functions - preferably different files - that belong together: for example a helper of the model classes changes what it returns and one caller is adapted while another caller that the property reaches is not; a writer and its reader are changed consistently (so writing and reading back still agrees) while the meaning of the written document, or of documents from elsewhere, changes; a default value changes and one call site starts passing the old value explicitly; a field is renamed with a compatibility property that is subtly not equivalent; a normalisation moves from one layer to another and is now applied twice or not at all on one path; an "internal" convention (a sentinel such as -1, the order of a tuple, the unit of a count) changes on the producing side and on only some consuming sides. Each edit on its own should look harmless or even like an improvement; the break comes from the combination. The list at the end shows what earlier rounds already proposed (about seventeen per property): do NOT repeat those or close variants.
Deliver under {wt}/SEED/A/: patch.diff (`git diff` of the change against HEAD); demo.py - standalone, public API, exits 0 printing PASS on the UNCHANGED worktree and exits 1 printing FAIL (saying what went wrong) with the patch applied, demonstrating a violation of the property AS STATED (run as `PYTHONPATH={wt} /venv/bin/python SEED/A/demo.py` from {wt}; do not hard-code {wt}); meta.json {{"property": "{pid}", "kind": "break", "summary": "...", "needs_to_manifest": "...", "files_touched": [...]}}.

PART 2 - ONE BEHAVIOUR-PRESERVING RESTRUCTURING (R1): change NOTHING observable for any input (same results, same exceptions, same effects on the arguments, same files written) but move code around the way a maintainer reorganising the package would: extract the helpers that the code of this property uses into a NEW module of the package (or merge two modules), rename functions and keep the old names as aliases or thin wrappers, split a class into a base class / mixin defined in another file, turn module-level functions into static methods or the reverse, re-export names through the package `__init__`, introduce a small constants module for the literals (keywords, tags, sentinels) that writer and reader share. At least two files must change and at least one new file must appear; it must be at least 40 changed lines.
Deliver under {wt}/SEED/R1/: patch.diff (`git add -N` new files first so that `git diff` includes them); demo.py - standalone; it checks the property as stated on a good spread of in-scope inputs AND prints a digest of results (values, orders, exception types) for a spread of inputs including ill-formed ones; it exits 0 printing PASS both on the unchanged and on the patched worktree and its full output must be byte-identical on both; meta.json {{"property": "{pid}", "kind": "refactor", "summary": "...", "why_behaviour_is_unchanged": "...", "files_touched": [...]}}.

Verify for each of the two changes: tests pass with the patch applied; the demo behaves as required with and without the patch (for R1: `diff` of the two outputs is empty). Leave the worktree clean (git checkout -- . and remove the new files you added, after saving the patch) at the end; the SEED directory is untracked and stays.

Report at the end, briefly: one line per change with its summary and the confirmation of the verifications. Also mention, separately, any behaviour of the UNCHANGED code that you noticed to contradict the property as stated (input and what happens) - do not fix it.

ALREADY PROPOSED (do not repeat these or close variants):
{prev}""")
