#!/venv/bin/python
"""Systematic single-site mutants of the package, run against the checks: automut.py [--n N] [--seed S] [--jobs J] [--out FILE]
                                                                              [--only FILE_SUBSTR] [--list]

Complements the hand-written catalogue and the sub-agents' seeds with small mechanical changes at sites nobody chose:
relational / boolean / arithmetic operator replacement, negated conditions, integer and boolean constants, swapped
arguments, deleted statements. Each mutant is applied to a scratch copy of /repo (outside /repo and /verif, removed
afterwards), must compile, and is first run against the 144 pinned tests (a mutant the tests already kill is not
interesting); then the checks run with VERIF_REPO=<copy> - those most likely to see the file first, the rest only
if none of them fires. One JSON line per mutant in FILE (default $TMPDIR/automut.jsonl); a summary at the end.
Survivors are *candidates*: equivalent mutants and changes outside every property are expected among them and are
triaged by hand (DESIGN.md section 8).
"""
import ast
import concurrent.futures as cf
import json
import os
import random
import shutil
import subprocess
import sys
import tempfile

sys.path.insert(0, os.path.dirname(os.path.dirname(os.path.abspath(__file__))))
from tools.mut import PKG, make_copy, run_tests  # noqa: E402

ALL = [f"C{i:02d}" for i in range(1, 21)]
# which checks look at a file first (the others run only when none of these fires)
LIKELY = {
    "models/feature_model.py": ["C03", "C20", "C18", "C02", "C14", "C15", "C17"],
    "operations/fm_atomic_sets.py": ["C15", "C19"], "operations/fm_average_branching_factor.py": ["C16", "C17", "C19"],
    "operations/fm_core_features.py": ["C14", "C19"], "operations/fm_count_leafs.py": ["C16", "C19"],
    "operations/fm_estimated_configurations_number.py": ["C13", "C19"], "operations/fm_feature_ancestors.py": ["C16", "C19"],
    "operations/fm_generate_random_attribute.py": ["C19"], "operations/fm_leaf_features.py": ["C16", "C19"],
    "operations/fm_max_depth_tree.py": ["C16", "C19"], "operations/fm_metrics.py": ["C17", "C19"],
    "operations/fm_variation_points.py": ["C16", "C19"],
    "transformations/afm_reader.py": ["C06", "C09", "C02"], "transformations/afm_writer.py": ["C06", "C12"],
    "transformations/clafer_writer.py": ["C11", "C12"], "transformations/featureide_reader.py": ["C07", "C09", "C02"],
    "transformations/featureide_writer.py": ["C07", "C12"], "transformations/glencoe_reader.py": ["C08", "C09", "C02"],
    "transformations/glencoe_writer.py": ["C08", "C12"], "transformations/json_reader.py": ["C05", "C02"],
    "transformations/json_writer.py": ["C05", "C12"], "transformations/pl_writer.py": ["C10", "C12"],
    "transformations/splot_writer.py": ["C10", "C12"], "transformations/uvl_reader.py": ["C04", "C01", "C02"],
    "transformations/uvl_writer.py": ["C01", "C12"], "transformations/xml_reader.py": ["C09", "C02"],
}
EXTRA = "--extra" in sys.argv      # second family of operators: format tokens, return None, loops that skip an element
SKIP_FUNCS = {"__str__", "__repr__", "get_extension", "get_source_extension", "get_destination_extension"}
CMP = {ast.Lt: ast.LtE, ast.LtE: ast.Lt, ast.Gt: ast.GtE, ast.GtE: ast.Gt, ast.Eq: ast.NotEq, ast.NotEq: ast.Eq,
       ast.Is: ast.IsNot, ast.IsNot: ast.Is, ast.In: ast.NotIn, ast.NotIn: ast.In}
BIN = {ast.Add: ast.Sub, ast.Sub: ast.Add, ast.Mult: ast.Add, ast.Div: ast.Mult, ast.FloorDiv: ast.Mult, ast.Mod: ast.FloorDiv}


def sites(path: str, rel: str) -> list[dict]:
    src = open(path, encoding="utf8").read()
    tree = ast.parse(src)
    lines = src.splitlines(keepends=True)
    offs = [0]
    for ln in lines:
        offs.append(offs[-1] + len(ln.encode("utf8")))
    bsrc = src.encode("utf8")

    def span(n: ast.AST) -> tuple[int, int]:
        return offs[n.lineno - 1] + n.col_offset, offs[n.end_lineno - 1] + n.end_col_offset  # type: ignore[attr-defined]

    out: list[dict] = []

    def add(n: ast.AST, kind: str, new_text: str, func: str) -> None:
        a, b = span(n)
        old = bsrc[a:b].decode("utf8")
        if old == new_text:
            return
        out.append({"file": rel, "line": n.lineno, "kind": kind, "func": func, "old": old[:120], "new": new_text[:120],
                    "a": a, "b": b, "text": new_text})

    def unp(n: ast.AST) -> str:
        return ast.unparse(n)

    def visit(node: ast.AST, func: str, in_msg: bool) -> None:
        if isinstance(node, (ast.FunctionDef, ast.AsyncFunctionDef)):
            if node.name in SKIP_FUNCS:
                return
            func = node.name
            for st in node.body:
                visit(st, func, False)
            return
        if isinstance(node, ast.ClassDef):
            for st in node.body:
                visit(st, func, False)
            return
        if isinstance(node, ast.Raise) or (isinstance(node, ast.Expr) and isinstance(node.value, ast.Constant)):
            return                                   # error messages and docstrings: not behaviour a property speaks of
        if isinstance(node, ast.Expr) and isinstance(node.value, ast.Call):
            f = unp(node.value.func)
            if f.split(".")[0] in ("logging", "LOGGER", "logger", "print", "warnings") or ".log" in f:
                return
            if func:
                add(node, "delete-statement", "pass", func)
        if isinstance(node, ast.Assign) and func and any(isinstance(t, (ast.Attribute, ast.Subscript)) for t in node.targets):
            add(node, "delete-statement", "pass", func)
        if isinstance(node, ast.AugAssign) and func:
            add(node, "delete-statement", "pass", func)
        if isinstance(node, (ast.AnnAssign,)) and node.value is None:
            return
        if isinstance(node, ast.If) and func:
            add(node.test, "negate-condition", f"not ({unp(node.test)})", func)
        if isinstance(node, ast.While) and func and not (isinstance(node.test, ast.Constant)):
            pass
        if isinstance(node, ast.Compare) and len(node.ops) == 1 and type(node.ops[0]) in CMP:
            new = ast.Compare(left=node.left, ops=[CMP[type(node.ops[0])]()], comparators=node.comparators)
            add(node, "relational", unp(new), func)
        if isinstance(node, ast.BoolOp):
            new = ast.BoolOp(op=ast.Or() if isinstance(node.op, ast.And) else ast.And(), values=node.values)
            add(node, "boolean", unp(new), func)
        if isinstance(node, ast.UnaryOp) and isinstance(node.op, ast.Not):
            add(node, "drop-not", unp(node.operand), func)
        if isinstance(node, ast.BinOp) and type(node.op) in BIN and not (
                isinstance(node.op, (ast.Add, ast.Mod)) and (isinstance(node.left, (ast.Constant, ast.JoinedStr)) and isinstance(
                    getattr(node.left, "value", ""), str) or isinstance(node.right, (ast.JoinedStr,)) or (
                    isinstance(node.right, ast.Constant) and isinstance(node.right.value, str)))):
            new = ast.BinOp(left=node.left, op=BIN[type(node.op)](), right=node.right)
            add(node, "arithmetic", unp(new), func)
        if isinstance(node, ast.Constant) and func and not in_msg:
            v = node.value
            if isinstance(v, bool):
                add(node, "constant", repr(not v), func)
            elif isinstance(v, int):
                add(node, "constant", repr(v + 1 if v != 1 else 0), func)
            elif EXTRA and isinstance(v, str) and 0 < len(v) <= 14 and rel.startswith("transformations/") and "\n" not in v:
                add(node, "string-token", repr(v + "x" if v.strip() else v + "_"), func)     # a keyword / separator / tag of a format
        if EXTRA and isinstance(node, ast.Return) and node.value is not None and func and not isinstance(node.value, ast.Constant):
            add(node.value, "return-none", "None", func)
        if EXTRA and isinstance(node, ast.For) and func:
            add(node.iter, "skip-first", f"list({unp(node.iter)})[1:]", func)
            add(node.iter, "skip-last", f"list({unp(node.iter)})[:-1]", func)
        if isinstance(node, ast.Call) and func and len(node.args) >= 2 and not node.keywords and all(
                isinstance(a, (ast.Name, ast.Attribute, ast.Call, ast.Subscript)) for a in node.args[:2]) \
                and unp(node.args[0]) != unp(node.args[1]):
            new = ast.Call(func=node.func, args=[node.args[1], node.args[0]] + node.args[2:], keywords=[])
            add(node, "swap-arguments", unp(new), func)
        if isinstance(node, ast.Subscript) and func and isinstance(node.slice, ast.Constant) and isinstance(node.slice.value, int) \
                and isinstance(node.ctx, ast.Load):
            i = node.slice.value
            new = ast.Subscript(value=node.value, slice=ast.Constant(value=(i + 1 if i >= 0 else 0)), ctx=ast.Load())
            add(node, "index", unp(new), func)
        msg = in_msg or isinstance(node, (ast.JoinedStr,)) or (isinstance(node, ast.Call) and unp(node.func).split(".")[-1] in (
            "FlamaException", "ParsingException", "ValueError", "TypeError", "format"))
        for ch in ast.iter_child_nodes(node):
            if isinstance(node, (ast.FunctionDef, ast.arguments, ast.arg)):
                continue
            if isinstance(ch, ast.expr) and node.__class__.__name__ in ("AnnAssign",) and ch is getattr(node, "annotation", None):
                continue
            visit(ch, func, msg)

    for st in tree.body:
        visit(st, "", False)
    # de-duplicate nested identical spans (e.g. negate-condition and relational on the same test are both kept: differ in text)
    seen = set()
    uniq = []
    for s in out:
        k = (s["a"], s["b"], s["text"])
        if k not in seen:
            seen.add(k)
            uniq.append(s)
    return uniq


def apply(tmp: str, m: dict) -> bool:
    path = os.path.join(tmp, PKG, m["file"])
    b = open(path, "rb").read()
    nb = b[:m["a"]] + m["text"].encode("utf8") + b[m["b"]:]
    try:
        compile(nb.decode("utf8"), path, "exec")
    except SyntaxError:
        return False
    open(path, "wb").write(nb)
    return True


def run_one(prop: str, tmp: str) -> tuple[str, int, str]:
    env = dict(os.environ, VERIF_REPO=tmp, VERIF_EVIDENCE_DIR=os.path.join(tmp, "_ev"), VERIF_TIME_LIMIT_S="900")
    r = subprocess.run(["/venv/bin/python", "-m", "sa", prop, "--tier", "quick"], cwd="/verif", env=env,
                       capture_output=True, text=True)
    first = next((ln.strip() for ln in (r.stdout + r.stderr).splitlines() if ln.strip().startswith(("finding:", "ANALYSIS-ERROR"))), "")
    return prop, r.returncode, first[:220]


def evaluate(m: dict, threads: int) -> dict:
    tmp = make_copy(True)
    res = {k: m[k] for k in ("id", "file", "line", "kind", "func", "old", "new")}
    try:
        if not apply(tmp, m):
            res["status"] = "does-not-compile"
            return res
        rc, tail = run_tests(tmp)
        res["tests"] = tail
        if rc != 0:
            res["status"] = "killed-by-tests"
            return res
        likely = LIKELY.get(m["file"], [])
        rest = [p for p in ALL if p not in likely]
        fired, broken = [], []
        with cf.ThreadPoolExecutor(threads) as ex:
            for group in (likely, rest):
                for prop, code, first in ex.map(lambda p: run_one(p, tmp), group):
                    if code == 1:
                        fired.append((prop, first))
                    elif code != 0:
                        broken.append((prop, first))
                if fired:
                    break
        res["fired"] = fired[:4]
        res["exit2"] = broken[:4]
        res["status"] = "detected" if fired else ("analysis-error" if broken else "survived")
        return res
    finally:
        shutil.rmtree(tmp, ignore_errors=True)


def main() -> int:
    def opt(name: str, default: str) -> str:
        return sys.argv[sys.argv.index(name) + 1] if name in sys.argv else default
    n, seed, jobs = int(opt("--n", "400")), int(opt("--seed", "1")), int(opt("--jobs", "4"))
    only = opt("--only", "")
    out_path = opt("--out", os.path.join(tempfile.gettempdir(), "automut.jsonl"))
    allsites: list[dict] = []
    root = os.path.join("/repo", PKG)
    for sub in ("models", "operations", "transformations"):
        for fn in sorted(os.listdir(os.path.join(root, sub))):
            if fn == "pysat_to_fm.py":
                continue                             # CNF -> model: no property of the set speaks of it
            if fn.endswith(".py") and fn != "__init__.py" and only in f"{sub}/{fn}":
                allsites += sites(os.path.join(root, sub, fn), f"{sub}/{fn}")
    print(f"{len(allsites)} mutation sites in {len({s['file'] for s in allsites})} files", flush=True)
    if "--list" in sys.argv:
        from collections import Counter
        for k, c in sorted(Counter((s["file"], s["kind"]) for s in allsites).items()):
            print(k, c)
        return 0
    if EXTRA:
        allsites = [s_ for s_ in allsites if s_["kind"] in ("string-token", "return-none", "skip-first", "skip-last")]
        print(f"{len(allsites)} sites of the second family", flush=True)
    rnd = random.Random(seed)
    byfile: dict[str, list[dict]] = {}
    for s in allsites:
        byfile.setdefault(s["file"], []).append(s)
    chosen: list[dict] = []
    for f, ss in sorted(byfile.items()):
        k = max(4, round(n * len(ss) / len(allsites)))
        rnd.shuffle(ss)
        chosen += ss[:k]
    chosen = chosen[:max(n, len(byfile) * 4)]
    for i, m in enumerate(chosen):
        m["id"] = f"M{seed}-{i:04d}"
    if "--rerun" in sys.argv:          # only the mutants a previous run left undetected
        prev = [json.loads(ln) for ln in open(opt("--rerun", ""), encoding="utf8")]
        want = {r["id"] for r in prev if r["status"] in ("survived", "analysis-error")}
        chosen = [m for m in chosen if m["id"] in want]
    print(f"{len(chosen)} mutants chosen", flush=True)
    counts: dict[str, int] = {}
    with open(out_path, "a", encoding="utf8") as fh, cf.ThreadPoolExecutor(jobs) as ex:
        for res in ex.map(lambda m: evaluate(m, max(2, 16 // jobs)), chosen):
            counts[res["status"]] = counts.get(res["status"], 0) + 1
            fh.write(json.dumps(res) + "\n")
            fh.flush()
            if res["status"] in ("survived", "analysis-error"):
                print(f"{res['status']:15s} {res['id']} {res['file']}:{res['line']} [{res['kind']}] {res['old']!r} -> {res['new']!r}"
                      f" {res.get('exit2') or ''}", flush=True)
    print(json.dumps(counts))
    return 0


if __name__ == "__main__":
    sys.exit(main())
